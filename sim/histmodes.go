package main

// Extra HIST modes and the driver-side batches built on them:
//   sweep:i/n      repetition without history over slice i of the corpus (C05)
//   tornsweep:i/n  configuration files torn at every byte offset = i mod n (C11)
//   noref          run the history, skip the reference phase (the oracle is the
//                  trace hash compared across environments / the syscall audit)
// plus runEnvBatch (environment perturbation) and runAuditBatch (strace).

import (
	"bufio"
	"fmt"
	"os"
	"path/filepath"
	"regexp"
	"strings"
	"sync"
	"time"

	"github.com/zmap/zlint/v3/lint"
)

func parseSlice(mode string) (i, n int) {
	n = 1
	if k := strings.Index(mode, ":"); k >= 0 {
		fmt.Sscanf(mode[k+1:], "%d/%d", &i, &n)
	}
	if n < 1 {
		n = 1
	}
	return i % n, n
}

// genSweep: every corpus object of slice i is linted R times in place with the
// full registry; all repetitions must agree and the first is compared with ref.
func genSweep(seed uint64, prop, tier, mode string) *Plan {
	i, n := parseSlice(mode)
	p := &Plan{Engine: "hist", Prop: prop, Seed: seed, Tier: tier, Knobs: map[string]any{"worker_mode": mode}}
	R := 16
	if tier == "thorough" {
		R = 150
	}
	p.Knobs["repeat_R"] = R
	idx := corpusIndex()
	for j, name := range idx {
		if j%n != i {
			continue
		}
		o := loadCorpusFile(name)
		if o == nil {
			continue
		}
		p.Objects = append(p.Objects, *o)
		p.Ops = append(p.Ops, Op{K: "repeat", Obj: len(p.Objects) - 1, Reg: 0, R: R})
	}
	p.Knobs["n_objects"] = len(p.Objects)
	return p
}

// genSynthSweep: repetition without history over seeded synthetic objects
// (unusual shapes the corpus lacks: repeated attributes, several onion names, ...).
func genSynthSweep(seed uint64, prop, tier, mode string) *Plan {
	g := newRNG(seed)
	idx := corpusIndex()
	p := &Plan{Engine: "hist", Prop: prop, Seed: seed, Tier: tier, Knobs: map[string]any{"worker_mode": mode}}
	R := 8
	n := 24
	if tier == "thorough" {
		R, n = 40, 40
	}
	p.Knobs["repeat_R"] = R
	for i := 0; i < n; i++ {
		var o *ObjSpec
		if i%8 == 7 {
			o = synthBigCRL(g, idx) // thousands of entries: where an implementation switches to another strategy
		} else if i%4 == 3 {
			o = synthCRL(g, idx)
		} else {
			o = synthCert(g, idx)
		}
		if o == nil {
			continue
		}
		p.Objects = append(p.Objects, *o)
		p.Ops = append(p.Ops, Op{K: "repeat", Obj: len(p.Objects) - 1, Reg: 0, R: R})
	}
	p.Knobs["n_objects"] = len(p.Objects)
	return p
}

// genSynthSel: the selection counterpart of the synthetic repeat sweep (C07). Every run draws a batch of
// synthetic objects and lints each of them, as the same parsed object, through a fixed family of
// selections in which the *other* lints sharing the object - and the order they run in - differ:
// the global registry (registration order), a filtered registry that keeps everything (name order),
// everything but one seeded lint, one source, and a seeded half; then once more through the global
// registry. Every result is judged against the single-lint fresh-process reference and against the
// other selections of the run.
func genSynthSel(seed uint64, prop, tier, mode string) *Plan {
	g := newRNG(seed)
	meta := readMetaTable()
	idx := corpusIndex()
	p := &Plan{Engine: "hist", Prop: prop, Seed: seed, Tier: tier, Knobs: map[string]any{"worker_mode": mode}}
	hg := &histGen{g: g, meta: meta, p: p, prof: profileFor(prop)}
	all := map[string]bool{}
	for _, n := range meta.Names {
		all[n] = true
	}
	hg.mregs = []*ModelReg{{Sel: all, Cfg: -1}}
	n := 12
	if tier == "thorough" {
		n = 30
	}
	// selections shared by the whole run
	var probes []string
	for _, nm := range meta.Names {
		if meta.ByName[nm].Probe {
			probes = append(probes, nm)
		}
	}
	var regs []int
	if len(probes) > 0 {
		regs = append(regs, hg.emitFilterOpts(0, &FilterOpts{ExcludeNames: []string{pick(g, probes)}})) // everything real, in name order
	}
	regs = append(regs, hg.emitFilterOpts(0, &FilterOpts{ExcludeNames: []string{pick(g, meta.Names)}}))
	regs = append(regs, hg.emitFilterOpts(0, &FilterOpts{IncludeSources: []string{pick(g, meta.sources())}}))
	var half []string
	for _, j := range g.subset(len(meta.Names), len(meta.Names)/2) {
		half = append(half, meta.Names[j])
	}
	regs = append(regs, hg.emitFilterOpts(0, &FilterOpts{IncludeNames: half}))
	for i := 0; i < n; i++ {
		var o *ObjSpec
		if i%6 == 5 {
			o = synthCRL(g, idx)
		} else {
			o = synthCert(g, idx)
		}
		if o == nil {
			continue
		}
		p.Objects = append(p.Objects, *o)
		oi := len(p.Objects) - 1
		order := g.Perm(len(regs))
		first := g.Chance(0.5)
		if first {
			p.Ops = append(p.Ops, Op{K: "lint", Obj: oi, Reg: 0, Path: "ex"})
		}
		for _, j := range order {
			if regs[j] >= 0 {
				p.Ops = append(p.Ops, Op{K: "lint", Obj: oi, Reg: regs[j], Path: "ex"})
			}
		}
		if !first || g.Chance(0.5) {
			p.Ops = append(p.Ops, Op{K: "lint", Obj: oi, Reg: 0, Path: "ex"})
		}
	}
	p.Knobs["n_objects"] = len(p.Objects)
	return p
}

// tornTexts are the documents the torn-file sweep cuts at every offset. They are
// the same for every run of the batch so that the offsets partition them.
func tornTexts(meta *MetaTable) []CfgSpec {
	g := newRNG(0x7042)
	var out []CfgSpec
	// every real configurable lint and two probes, legal values
	var sb strings.Builder
	var targets []string
	for _, n := range configurableNames(meta, true) {
		sb.WriteString(legalSection(g, n, configurableFields(n)))
		targets = append(targets, n)
	}
	k := 0
	for _, n := range configurableNames(meta, false) {
		if meta.ByName[n].Probe && k < 3 && strings.Contains(n, "_none") {
			sb.WriteString(legalSection(g, n, configurableFields(n)))
			targets = append(targets, n)
			k++
		}
	}
	out = append(out, CfgSpec{Class: "option", Text: sb.String(), Targets: targets, Via: "string"})
	if b, err := lint.GlobalRegistry().DefaultConfiguration(); err == nil {
		out = append(out, CfgSpec{Class: "example", Text: string(b), Via: "string"})
	}
	return out
}

func genTornSweep(seed uint64, prop, tier, mode string) *Plan {
	i, n := parseSlice(mode)
	g := newRNG(seed)
	meta := readMetaTable()
	idx := corpusIndex()
	p := &Plan{Engine: "hist", Prop: prop, Seed: seed, Tier: tier, Knobs: map[string]any{"worker_mode": mode}}
	hg := &histGen{g: g, meta: meta, p: p}
	for _, k := range []int{KCert, KCRL, KOCSP} {
		if o := drawCorpusObject(g, idx, k); o != nil {
			p.Objects = append(p.Objects, *o)
		}
	}
	texts := tornTexts(meta)
	maxPerRun := 40
	if tier == "thorough" {
		maxPerRun = 200
	}
	count := 0
	for ti, base := range texts {
		if ti == 1 && tier != "thorough" && len(base.Text) > 1500 {
			base.Text = base.Text[:1500] // quick tier: the first part of the example document
		}
		for k := i; k < len(base.Text) && count < maxPerRun; k += n {
			c := base
			c.Via = "file"
			if (k/n)%2 == 1 {
				c.Via = "reader"
			}
			c.Fault = &ReaderFault{ErrAfter: -1, EOFAfter: k}
			if c.Via == "reader" {
				c.Fault.Chunks = []int{1 + k%7}
				c.Fault.EOFWithData = k%3 == 0
			}
			d, readErr := deliveredBytes(c.Text, c.Fault)
			c.Delivered = d
			c.ExpectErr = readErr || !tomlOK(d)
			if !c.ExpectErr {
				c = reclassifyTorn(c, meta)
			}
			p.Cfgs = append(p.Cfgs, c)
			ci := len(p.Cfgs) - 1
			p.Ops = append(p.Ops, Op{K: "loadcfg", Cfg: ci})
			if hg.cfgUsable(ci) {
				p.Ops = append(p.Ops, Op{K: "setcfg", Reg: 0, Cfg: ci})
				p.Ops = append(p.Ops, Op{K: "lint", Obj: count % len(p.Objects), Reg: 0, Path: "ex"})
			}
			count++
		}
	}
	p.Ops = append(p.Ops, Op{K: "setcfg", Reg: 0, Cfg: -1}, Op{K: "lint", Obj: 0, Reg: 0, Path: "ex"})
	p.Knobs["torn_offsets"] = count
	return p
}

// ---------------------------------------------------------------- environment perturbation

type envVariant struct {
	Name string   `json:"name"`
	Env  []string `json:"env"` // KEY=VALUE; KEY alone = unset
	Dir  string   `json:"dir,omitempty"`
	Bare bool     `json:"bare,omitempty"` // start from an empty environment
}

func envVariants(g *RNG) envVariant {
	tzs := []string{"TZ", "TZ=UTC", "TZ=America/New_York", "TZ=Asia/Kolkata", "TZ=:/nonexistent", "TZ=Pacific/Kiritimati", "TZ=America/New_York", "TZ=Europe/Berlin", "TZ=Australia/Sydney"}
	v := envVariant{}
	tz := pick(g, tzs)
	v.Env = append(v.Env, tz)
	v.Name = tz
	if g.Chance(0.5) {
		l := pick(g, []string{"LANG=tr_TR.UTF-8", "LC_ALL=C", "LANG=de_DE.ISO-8859-1", "LC_ALL=ja_JP.UTF-8"})
		v.Env = append(v.Env, l)
		v.Name += "," + l
	}
	if g.Chance(0.4) {
		v.Env = append(v.Env, "HOME", "USER", "TMPDIR=/nonexistent")
		v.Name += ",noHOME"
	}
	if g.Chance(0.3) {
		v.Bare = true
		v.Name += ",bare"
	}
	if g.Chance(0.5) {
		v.Dir = "/"
		v.Name += ",cwd=/"
	}
	if g.Chance(0.6) {
		v.Env = append(v.Env, "ZSIM_NOFILE=1")
		v.Name += ",nofile"
	}
	if g.Chance(0.3) {
		v.Env = append(v.Env, "GODEBUG=x509sha1=1,randautoseed=0", "SSL_CERT_FILE=/nonexistent", "ZLINT_CONFIG=/nonexistent")
		v.Name += ",godebug"
	}
	return v
}

func applyEnv(base []string, v envVariant) []string {
	env := base
	if v.Bare {
		env = nil
		for _, kv := range base {
			if strings.HasPrefix(kv, "ZSIM_") || strings.HasPrefix(kv, "PATH=") {
				env = append(env, kv)
			}
		}
	}
	for _, e := range v.Env {
		if !strings.Contains(e, "=") {
			var out []string
			for _, kv := range env {
				if !strings.HasPrefix(kv, e+"=") {
					out = append(out, kv)
				}
			}
			env = out
		} else {
			env = append(env, e)
		}
	}
	return env
}

// runEnvBatch: every seed is executed twice in fresh processes, once in the
// baseline environment and once in a seeded perturbed one; the event logs
// (which carry a hash of every lint result) must be identical.
func runEnvBatch(b batchSpec, tier string, batch uint64, deadline time.Time) *batchAgg {
	b.Mode = "noref"
	b.Audit = true
	agg := &batchAgg{Spec: b, Counters: counters{}, Distinct: map[string]map[string]bool{}, Hashes: map[uint64]string{}}
	start := time.Now()
	var mu sync.Mutex
	var wg sync.WaitGroup
	sem := make(chan struct{}, workers())
	for i := 0; i < b.Runs && time.Now().Before(deadline); i++ {
		s := runSeed(batch, b.Engine+"env", b.Prop+"/"+b.Label, i)
		if i == 0 {
			agg.FirstSeed = s
		}
		wg.Add(1)
		sem <- struct{}{}
		go func() {
			defer wg.Done()
			defer func() { <-sem }()
			v := envVariants(newRNG(s ^ 0xe57))
			fv, res, herr := envCompare(b, tier, s, v)
			mu.Lock()
			defer mu.Unlock()
			if herr != "" {
				agg.HarnessErr = append(agg.HarnessErr, herr)
				return
			}
			agg.Runs += 2
			agg.Steps += 2 * res.Steps
			agg.Ops += 2 * res.Ops
			agg.Checks += res.Steps
			agg.Counters.inc("env_pairs_compared")
			for _, e := range v.Env {
				k := e
				if j := strings.Index(e, "="); j > 0 {
					k = e[:j]
				}
				agg.Counters.inc("fault/env_" + k)
			}
			if v.Bare {
				agg.Counters.inc("fault/env_bare")
			}
			if v.Dir != "" {
				agg.Counters.inc("fault/env_cwd")
			}
			if res.Counters["nofile_rlimit_applied"] > 0 {
				agg.Counters.inc("fault/rlimit_nofile_zero")
			}
			if fv != nil {
				agg.Violations = append(agg.Violations, *fv)
			}
			if len(agg.Samples) < 1 {
				agg.Samples = append(agg.Samples, map[string]any{"seed": s, "env_variant": v, "plan": res.Sample})
			}
		}()
	}
	wg.Wait()
	agg.WallS = time.Since(start).Seconds()
	return agg
}

func envCompare(b batchSpec, tier string, s uint64, v envVariant) (*foundViolation, *RunResult, string) {
	base := b
	base.Env = []string{"TZ=UTC"}
	r1, e1, err := spawnRun(base, tier, s, "", true, 300*time.Second)
	if err != nil {
		return nil, nil, fmt.Sprintf("env baseline seed %d: %v: %s", s, err, clip(e1, 400))
	}
	pert := b
	pert.EnvV = &v
	r2, e2, err := spawnRun(pert, tier, s, "", true, 300*time.Second)
	if err != nil {
		return nil, nil, fmt.Sprintf("env variant %s seed %d: %v: %s", v.Name, s, err, clip(e2, 400))
	}
	if r1.TraceHash == r2.TraceHash {
		return nil, r2, ""
	}
	d := "event logs differ in length"
	for i := 0; i < len(r1.Log) && i < len(r2.Log); i++ {
		if r1.Log[i] != r2.Log[i] {
			d = fmt.Sprintf("first difference at event %d: baseline %q, variant %q", i+1, r1.Log[i], r2.Log[i])
			break
		}
	}
	plan := &Plan{Engine: "hist", Prop: b.Prop, Seed: s, Tier: tier, Knobs: map[string]any{"worker_mode": "noref", "audit": true, "env_variant": v}}
	return &foundViolation{V: Violation{Property: "C05", Class: "env_dependent", Site: v.Name,
		Detail: "the same seeded history gives different lint results under a different process environment (" + v.Name + "): " + d}, Plan: plan, Seed: s, Spec: b}, r2, ""
}

// ---------------------------------------------------------------- syscall audit

const auditSyscalls = "?open,?openat,?openat2,?creat,?stat,?lstat,?newfstatat,?statx,?access,?faccessat,?faccessat2,?readlink,?readlinkat,?getdents64,?unlink,?unlinkat,?rename,?renameat,?renameat2,?mkdir,?mkdirat,?chdir,?socket,?connect,?bind,?listen,?accept,?accept4,?sendto,?sendmsg,?recvfrom,?recvmsg,?execve,?execveat,?fork,?vfork,?write,?eventfd,?eventfd2"

var straceLine = regexp.MustCompile(`^(\d+)\s+(\w+)\((.*)$`)

// auditStrace returns the audited syscalls seen between the two markers.
func auditStrace(path string) (inside []string, sawBegin, sawEnd bool, total int) {
	f, err := os.Open(path)
	if err != nil {
		return nil, false, false, 0
	}
	defer f.Close()
	sc := bufio.NewScanner(f)
	sc.Buffer(make([]byte, 1<<20), 1<<20)
	in := false
	eventfds := map[string]bool{}
	for sc.Scan() {
		ln := sc.Text()
		total++
		if m := straceLine.FindStringSubmatch(ln); m != nil && strings.HasPrefix(m[2], "eventfd") {
			// the Go runtime's netpoll wake-up descriptor: writes to it are scheduler noise
			if k := strings.LastIndex(ln, "= "); k > 0 {
				eventfds[strings.TrimSpace(ln[k+2:])] = true
			}
			continue
		}
		if m := straceLine.FindStringSubmatch(ln); m != nil && m[2] == "write" {
			fd := strings.SplitN(m[3], ",", 2)[0]
			if eventfds[fd] {
				continue
			}
		}
		if strings.Contains(ln, "ZSIM-MARK-BEGIN") {
			in, sawBegin = true, true
			continue
		}
		if strings.Contains(ln, "ZSIM-MARK-END") {
			in, sawEnd = false, true
			continue
		}
		if !in {
			continue
		}
		if strings.Contains(ln, "resumed>") || strings.HasPrefix(strings.TrimLeft(ln, "0123456789 "), "---") || strings.HasPrefix(strings.TrimLeft(ln, "0123456789 "), "+++") {
			continue
		}
		inside = append(inside, ln)
	}
	return
}

func runAuditBatch(b batchSpec, tier string, batch uint64, deadline time.Time) *batchAgg {
	if _, err := os.Stat("/usr/bin/strace"); err != nil {
		agg := &batchAgg{Spec: b, Counters: counters{}, Distinct: map[string]map[string]bool{}, Hashes: map[uint64]string{}}
		agg.HarnessErr = []string{"strace is not available: the syscall audit cannot run"}
		return agg
	}
	b.Mode = "noref"
	b.Audit = true
	b.Strace = true
	agg := runBatch(b, tier, batch, deadline, nil)
	dir := filepath.Join(verifRoot(), "work", "tmp")
	files, _ := filepath.Glob(filepath.Join(dir, fmt.Sprintf("strace-%d-*.txt", os.Getpid())))
	for _, f := range files {
		inside, sb, se, total := auditStrace(f)
		var seed uint64
		fmt.Sscanf(filepath.Base(f), fmt.Sprintf("strace-%d-%%d.txt", os.Getpid()), &seed)
		agg.Counters.add("audit_strace_lines", total)
		if !sb || !se {
			agg.HarnessErr = append(agg.HarnessErr, fmt.Sprintf("audit seed %d: markers not found in strace output (%d lines)", seed, total))
			os.Remove(f)
			continue
		}
		agg.Counters.inc("audit_runs_bracketed")
		agg.Checks++
		if len(inside) > 0 {
			plan := &Plan{Engine: "hist", Prop: b.Prop, Seed: seed, Tier: tier, Knobs: map[string]any{"worker_mode": "noref", "audit": true, "strace": true}}
			sys := "?"
			if m := straceLine.FindStringSubmatch(inside[0]); m != nil {
				sys = m[2]
			}
			agg.Violations = append(agg.Violations, foundViolation{V: Violation{Property: "C05", Class: "io_in_lint", Site: sys,
				Detail: fmt.Sprintf("%d file-system/network/process system calls were made while only lint and registry operations ran; first: %s", len(inside), clip(strings.Join(inside[:min(3, len(inside))], " || "), 500))},
				Plan: plan, Seed: seed, Spec: b})
		}
		os.Remove(f)
	}
	return agg
}

// replaySpecial re-executes the driver-side comparisons (env / audit) of a replay file.
func replaySpecial(p *Plan, file string) bool {
	if p.Knobs == nil {
		return false
	}
	if ev, ok := p.Knobs["env_variant"]; ok {
		var v envVariant
		_ = jsonRoundTrip(ev, &v)
		b := batchSpec{Engine: "hist", Prop: p.Prop, Mode: "noref", Audit: true}
		fv, _, herr := envCompare(b, p.Tier, p.Seed, v)
		if herr != "" {
			die(2, "replay: %s", herr)
		}
		if fv != nil {
			fmt.Printf("replay: %s %s: %s\n", fv.V.Property, fv.V.Class, fv.V.Detail)
			fmt.Printf("VIOLATION property=%s replay=%s\n", fv.V.Property, file)
			os.Exit(1)
		}
		fmt.Println("replay: the recorded violation did not reproduce on this tree")
		return true
	}
	if st, ok := p.Knobs["strace"].(bool); ok && st {
		b := batchSpec{Label: "replay-audit", Engine: "hist", Prop: p.Prop, Runs: 1, Special: "audit"}
		spec := b
		spec.Mode, spec.Audit, spec.Strace = "noref", true, true
		res, stderr, err := spawnRun(spec, p.Tier, p.Seed, "", false, 600*time.Second)
		if err != nil {
			die(2, "replay: %v: %s", err, clip(stderr, 800))
		}
		sf := ""
		if m, ok := res.Sample.(map[string]any); ok {
			sf, _ = m["strace_file"].(string)
		}
		inside, sb, se, _ := auditStrace(sf)
		os.Remove(sf)
		if !sb || !se {
			die(2, "replay: strace markers not found")
		}
		if len(inside) > 0 {
			for _, l := range inside {
				fmt.Println("replay: syscall inside the lint bracket:", l)
			}
			fmt.Printf("VIOLATION property=C05 replay=%s\n", file)
			os.Exit(1)
		}
		fmt.Println("replay: the recorded violation did not reproduce on this tree")
		return true
	}
	return false
}
