//go:build finegrain

package main

// Built only against an instrumented scratch copy (see instrument.go): every
// function of the framework, the lints and the helpers then yields to the
// baton scheduler on entry, and every textual time.Now / time.Since /
// time.Until of those packages reads the simulated clock.

import (
	"encoding/json"
	"fmt"
	"os"
	"path/filepath"
	"runtime"
	"strings"
	"sync/atomic"
	"time"

	zlint "github.com/zmap/zlint/v3"
	"github.com/zmap/zlint/v3/lint"
	"github.com/zmap/zlint/v3/verifyield"
)

const fineGrainBuild = true

func installFineGrain(s *sched) {
	verifyield.Hook = func(site string) { s.Yield(s.cur, "fn:"+site) }
	if s.sc != nil && s.sc.Stmt {
		verifyield.SHook = func(site string) { s.Yield(s.cur, "st:"+site) }
	}
}

func uninstallFineGrain() { verifyield.Hook, verifyield.SHook = nil, nil }

// setSimClock installs the simulated clock: every clock read of instrumented
// code returns t (unix seconds, UTC) and is reported to onRead.
func setSimClock(t int64, onRead func(site string)) {
	if t == 0 {
		verifyield.Clock = nil
		return
	}
	now := time.Unix(t, 0).UTC()
	verifyield.Clock = func(site string) time.Time {
		if onRead != nil {
			onRead(site)
		}
		return now
	}
}

// setStmtHook installs f before every statement of the instrumented rule bodies and helpers
// (nil removes it).
func setStmtHook(f func(site string)) { verifyield.SHook = f }

// setSimTimers hands the timers of instrumented code to the simulation: every timer, ticker or sleep
// started there is reported to onStart; with early set it fires at once instead of after the time asked
// for (the machine is slow, the process was stopped for a while: whatever was to take that long is over).
func setSimTimers(on bool, early bool, onStart func(site string)) {
	if !on {
		verifyield.Timers = nil
		return
	}
	verifyield.Timers = func(site string, d time.Duration) time.Duration {
		if onStart != nil {
			onStart(site)
		}
		if early {
			return 0
		}
		return d
	}
}

// ---------------------------------------------------------------- helper index (coverage-guided aiming)

// helperUse: linting corpus object File with the single lint Lint enters the helper function.
type helperUse struct {
	File string `json:"file"`
	Lint string `json:"lint"`
}

var helperMemo map[string][]helperUse

// helperIndex maps every function of package util (as the instrumented copy names its entry site) to the
// (object, lint) pairs that were seen entering it: for every corpus object, each lint that has a finding on it
// is run alone on a fresh parse with the function-entry hook recording. Which rules share which helper is
// then an observation of this very build, not a list kept by hand; the schedule generator uses it to put
// different objects into the same helper at the same time and to switch there. Cached per binary.
func helperIndex() map[string][]helperUse {
	if helperMemo != nil {
		return helperMemo
	}
	path := filepath.Join(verifRoot(), "work", "helper-index-"+binHash()+".json")
	if b, err := os.ReadFile(path); err == nil {
		var m map[string][]helperUse
		if json.Unmarshal(b, &m) == nil && len(m) > 0 {
			helperMemo = m
			return m
		}
	}
	raw := map[string][]helperUse{}
	for _, e := range corpusClassIndex() {
		if len(e.Find) == 0 {
			continue
		}
		o := loadCorpusFile(e.File)
		if o == nil {
			continue
		}
		for li, L := range e.Find {
			if li >= 5 || isProbeName(L) {
				break
			}
			p, err := parseObj(o.Kind, o.DER)
			if err != nil {
				break
			}
			reg, err := lint.GlobalRegistry().Filter(lint.FilterOptions{IncludeNames: []string{L}})
			if err != nil {
				continue
			}
			seen := map[string]bool{}
			verifyield.Hook = func(site string) {
				if strings.HasPrefix(site, "util.") {
					seen[site] = true
				}
			}
			func() {
				defer func() { recover() }()
				switch p.Kind {
				case KCert:
					zlint.LintCertificateEx(p.Cert, reg)
				case KCRL:
					zlint.LintRevocationListEx(p.CRL, reg)
				case KOCSP:
					zlint.LintOcspResponseEx(p.OCSP, reg)
				}
			}()
			verifyield.Hook = nil
			for _, site := range sortedKeys(seen) {
				raw[site] = append(raw[site], helperUse{File: e.File, Lint: L})
			}
		}
	}
	out := map[string][]helperUse{}
	for h, uses := range raw {
		files := map[string]bool{}
		for _, u := range uses {
			files[u.File] = true
		}
		if len(files) >= 2 {
			out[h] = uses
		}
	}
	b, _ := json.Marshal(out)
	os.MkdirAll(filepath.Dir(path), 0o755)
	tmp := fmt.Sprintf("%s.%d.tmp", path, os.Getpid())
	if os.WriteFile(tmp, b, 0o644) == nil {
		os.Rename(tmp, path)
		if old, _ := filepath.Glob(filepath.Join(filepath.Dir(path), "helper-index-*.json")); len(old) > 0 {
			for _, f := range old {
				if f != path {
					os.Remove(f)
				}
			}
		}
	}
	helperMemo = out
	return out
}

// ---------------------------------------------------------------- schedule perturbation for free-running clients

var jitterCount, jitterFired uint64

// installJitter: free-running clients under the race detector meet each other only where the machine
// happens to put them. With the instrumented copy every function entry and every statement of the rules
// and helpers is a place where the running goroutine may, by a seeded coin, give up its processor or sleep
// for a few dozen microseconds: windows of a few instructions (between a miss under a read lock and the
// write lock that follows, between a check and an act) become windows other goroutines can enter. The
// perturbation is derived from the run's seed and a global site counter; which thread meets which site
// first is still the machine's choice, so this part is seeded, not replayable (like the race batches).
func installJitter(seed uint64, perMille uint64) {
	hook := func(site string) {
		n := atomic.AddUint64(&jitterCount, 1)
		h := splitmix64(seed ^ (n * 0x9e3779b97f4a7c15))
		if h%1000 >= perMille {
			return
		}
		atomic.AddUint64(&jitterFired, 1)
		if h&(1<<20) == 0 {
			runtime.Gosched()
		} else {
			time.Sleep(time.Duration(5+(h>>24)%120) * time.Microsecond)
		}
	}
	verifyield.Hook = hook
	verifyield.SHook = hook
}

func jitterStats() (uint64, uint64) { return atomic.LoadUint64(&jitterCount), atomic.LoadUint64(&jitterFired) }
