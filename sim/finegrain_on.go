//go:build finegrain

package main

// Built only against an instrumented scratch copy (see instrument.go): every
// function of the framework, the lints and the helpers then yields to the
// baton scheduler on entry, and every textual time.Now / time.Since /
// time.Until of those packages reads the simulated clock.

import (
	"time"

	"github.com/zmap/zlint/v3/verifyield"
)

const fineGrainBuild = true

func installFineGrain(s *sched) {
	verifyield.Hook = func(site string) { s.Yield(s.cur, "fn:"+site) }
	if s.sc != nil && s.sc.Stmt {
		verifyield.SHook = func(site string) { s.Yield(s.cur, "st:"+site) }
	}
}

func uninstallFineGrain() { verifyield.Hook, verifyield.SHook = nil, nil }

// setSimClock installs the simulated clock: every clock read of instrumented
// code returns t (unix seconds, UTC) and is reported to onRead.
func setSimClock(t int64, onRead func(site string)) {
	if t == 0 {
		verifyield.Clock = nil
		return
	}
	now := time.Unix(t, 0).UTC()
	verifyield.Clock = func(site string) time.Time {
		if onRead != nil {
			onRead(site)
		}
		return now
	}
}

// setStmtHook installs f before every statement of the instrumented rule bodies and helpers
// (nil removes it).
func setStmtHook(f func(site string)) { verifyield.SHook = f }

// setSimTimers hands the timers of instrumented code to the simulation: every timer, ticker or sleep
// started there is reported to onStart; with early set it fires at once instead of after the time asked
// for (the machine is slow, the process was stopped for a while: whatever was to take that long is over).
func setSimTimers(on bool, early bool, onStart func(site string)) {
	if !on {
		verifyield.Timers = nil
		return
	}
	verifyield.Timers = func(site string, d time.Duration) time.Duration {
		if onStart != nil {
			onStart(site)
		}
		if early {
			return 0
		}
		return d
	}
}
