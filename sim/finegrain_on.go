//go:build finegrain

package main

// Built only against an instrumented scratch copy (see instrument.go): every
// function of the framework, the lints and the helpers then yields to the
// baton scheduler on entry.

import "github.com/zmap/zlint/v3/verifyield"

const fineGrainBuild = true

func installFineGrain(s *sched) {
	verifyield.Hook = func(site string) { s.Yield(s.cur, "fn:"+site) }
}

func uninstallFineGrain() { verifyield.Hook = nil }
