//go:build finegrain

package main

// Built only against an instrumented scratch copy (see instrument.go): every
// function of the framework, the lints and the helpers then yields to the
// baton scheduler on entry, and every textual time.Now / time.Since /
// time.Until of those packages reads the simulated clock.

import (
	"time"

	"github.com/zmap/zlint/v3/verifyield"
)

const fineGrainBuild = true

func installFineGrain(s *sched) {
	verifyield.Hook = func(site string) { s.Yield(s.cur, "fn:"+site) }
	if s.sc != nil && s.sc.Stmt {
		verifyield.SHook = func(site string) { s.Yield(s.cur, "st:"+site) }
	}
}

func uninstallFineGrain() { verifyield.Hook, verifyield.SHook = nil, nil }

// setSimClock installs the simulated clock: every clock read of instrumented
// code returns t (unix seconds, UTC) and is reported to onRead.
func setSimClock(t int64, onRead func(site string)) {
	if t == 0 {
		verifyield.Clock = nil
		return
	}
	now := time.Unix(t, 0).UTC()
	verifyield.Clock = func(site string) time.Time {
		if onRead != nil {
			onRead(site)
		}
		return now
	}
}

// setStmtHook installs f before every statement of the instrumented rule bodies and helpers
// (nil removes it).
func setStmtHook(f func(site string)) { verifyield.SHook = f }
