package main

// `zsim instrument <src v3 dir> <dst v3 dir>`: makes a scratch copy of the
// module (without testdata, integration, cmd and tests) in which every function
// of the lint framework, the lints and the helpers starts with a call to
// verifyield.Y("<site>") — a hook that is nil unless the fine-grain SCHED
// batch installs the baton scheduler's yield. The text is spliced in at byte
// offsets taken from go/parser (no AST rewriting, comments stay where they
// are). /repo itself is never touched; the copy is removed by ./check once the
// fine-grain harness binary has been built from it.

import (
	"fmt"
	"go/ast"
	"go/parser"
	"go/token"
	"io/fs"
	"os"
	"path/filepath"
	"sort"
	"strings"
)

const verifyieldSrc = `// Package verifyield is added to scratch copies of zlint by the verification harness.
package verifyield

import "time"

// Hook is nil unless a simulation installs it.
var Hook func(site string)

// Y is called at the start of every instrumented function.
func Y(site string) {
	if h := Hook; h != nil {
		h(site)
	}
}

// SHook is nil unless a simulation installs it.
var SHook func(site string)

// S is called before every statement of the instrumented lint and helper packages: the points
// at which a fault-injecting simulation may make the running rule panic, or a scheduler may switch.
func S(site string) {
	if h := SHook; h != nil {
		h(site)
	}
}

// Clock is nil unless a simulation installs a simulated clock. Every textual
// time.Now / time.Since / time.Until of the instrumented packages reads it.
var Clock func(site string) time.Time

func Now(site string) func() time.Time {
	return func() time.Time {
		if c := Clock; c != nil {
			return c(site)
		}
		return time.Now()
	}
}

func Since(site string) func(time.Time) time.Duration {
	return func(t time.Time) time.Duration { return Now(site)().Sub(t) }
}

func Until(site string) func(time.Time) time.Duration {
	return func(t time.Time) time.Duration { return t.Sub(Now(site)()) }
}

// Timers is nil unless a simulation owns the timers of the instrumented packages: it is told where a
// timer, ticker or sleep is started and for how long, and answers how long it really takes (0: at once).
var Timers func(site string, d time.Duration) time.Duration

func dur(site string, d time.Duration) time.Duration {
	if t := Timers; t != nil {
		return t(site, d)
	}
	return d
}

func NewTimer(site string) func(time.Duration) *time.Timer {
	return func(d time.Duration) *time.Timer { return time.NewTimer(dur(site, d)) }
}

func After(site string) func(time.Duration) <-chan time.Time {
	return func(d time.Duration) <-chan time.Time { return time.After(dur(site, d)) }
}

func AfterFunc(site string) func(time.Duration, func()) *time.Timer {
	return func(d time.Duration, f func()) *time.Timer { return time.AfterFunc(dur(site, d), f) }
}

func Sleep(site string) func(time.Duration) {
	return func(d time.Duration) { time.Sleep(dur(site, d)) }
}

func NewTicker(site string) func(time.Duration) *time.Ticker {
	return func(d time.Duration) *time.Ticker {
		if e := dur(site, d); e > 0 {
			d = e
		} else if d > 0 {
			d = 1
		}
		return time.NewTicker(d)
	}
}

func Tick(site string) func(time.Duration) <-chan time.Time {
	return func(d time.Duration) <-chan time.Time {
		if d <= 0 {
			return nil
		}
		return NewTicker(site)(d).C
	}
}
`

func instrumentMain(args []string) {
	if len(args) != 2 {
		die(2, "usage: zsim instrument <src v3 dir> <dst v3 dir>")
	}
	src, dst := args[0], args[1]
	nFiles, nFuncs, nClockSites := 0, 0, 0
	err := filepath.WalkDir(src, func(path string, d fs.DirEntry, err error) error {
		if err != nil {
			return err
		}
		rel, _ := filepath.Rel(src, path)
		if d.IsDir() {
			switch rel {
			case "testdata", "integration", "cmd", ".git":
				return filepath.SkipDir
			}
			return os.MkdirAll(filepath.Join(dst, rel), 0o755)
		}
		if strings.HasSuffix(rel, "_test.go") {
			return nil
		}
		data, err := os.ReadFile(path)
		if err != nil {
			return err
		}
		top := strings.Split(rel, string(filepath.Separator))[0]
		instr := strings.HasSuffix(rel, ".go") && (top == "lint" || top == "lints" || top == "util" || rel == "resultset.go" || rel == "zlint.go")
		if instr {
			out, n, nc, ierr := instrumentFile(rel, data)
			if ierr != nil {
				return fmt.Errorf("%s: %v", rel, ierr)
			}
			if n > 0 {
				nFiles++
				nFuncs += n
			}
			nClockSites += nc
			data = out
		}
		return os.WriteFile(filepath.Join(dst, rel), data, 0o644)
	})
	if err != nil {
		die(2, "instrument: %v", err)
	}
	os.MkdirAll(filepath.Join(dst, "verifyield"), 0o755)
	if err := os.WriteFile(filepath.Join(dst, "verifyield", "verifyield.go"), []byte(verifyieldSrc), 0o644); err != nil {
		die(2, "instrument: %v", err)
	}
	fmt.Printf("instrument: %d functions in %d files, %d statement sites, %d clock sites\n", nFuncs, nFiles, instrStmtCount, nClockSites)
}

var instrStmtCount int

func instrumentFile(rel string, data []byte) ([]byte, int, int, error) {
	fset := token.NewFileSet()
	f, err := parser.ParseFile(fset, rel, data, parser.SkipObjectResolution)
	if err != nil {
		return nil, 0, 0, err
	}
	type ins struct {
		off  int
		del  int // bytes replaced at off (0 = pure insertion)
		text string
	}
	var inss []ins
	nStmt := 0
	dir := filepath.ToSlash(filepath.Dir(rel))
	top := strings.Split(filepath.ToSlash(rel), "/")[0]
	stmts := top == "lints" || top == "util" // rule bodies and their helpers: always below the framework's recover
	for _, d := range f.Decls {
		fd, ok := d.(*ast.FuncDecl)
		if !ok || fd.Body == nil || fd.Name.Name == "init" {
			continue
		}
		name := fd.Name.Name
		if fd.Recv != nil && len(fd.Recv.List) > 0 {
			t := fd.Recv.List[0].Type
			if s, ok := t.(*ast.StarExpr); ok {
				t = s.X
			}
			if id, ok := t.(*ast.Ident); ok {
				name = id.Name + "." + name
			}
		}
		off := fset.Position(fd.Body.Lbrace).Offset + 1
		inss = append(inss, ins{off: off, text: fmt.Sprintf(" verifyield.Y(%q);", dir+"."+name)})
		if stmts {
			// a site before every statement of every block of the function (nested blocks, case
			// clauses and function literals included)
			addList := func(list []ast.Stmt) {
				for _, st := range list {
					switch st.(type) {
					case *ast.EmptyStmt, *ast.CaseClause, *ast.CommClause:
						continue // (the "statements" of a switch / select body are its clauses)
					}
					pos := fset.Position(st.Pos())
					inss = append(inss, ins{off: pos.Offset, text: fmt.Sprintf("verifyield.S(\"%s:%d\"); ", filepath.ToSlash(rel), pos.Line)})
					nStmt++
				}
			}
			ast.Inspect(fd.Body, func(n ast.Node) bool {
				switch b := n.(type) {
				case *ast.BlockStmt:
					addList(b.List)
				case *ast.CaseClause:
					addList(b.Body)
				case *ast.CommClause:
					addList(b.Body)
				}
				return true
			})
		}
	}
	// the clock seam: every selector time.Now / time.Since / time.Until (called or passed as a
	// value) is redirected to the simulated clock of package verifyield
	timeName := ""
	for _, im := range f.Imports {
		if im.Path.Value == `"time"` {
			timeName = "time"
			if im.Name != nil {
				timeName = im.Name.Name
			}
		}
	}
	nClock := 0
	if timeName != "" && timeName != "_" && timeName != "." {
		ast.Inspect(f, func(n ast.Node) bool {
			se, ok := n.(*ast.SelectorExpr)
			if !ok {
				return true
			}
			id, ok := se.X.(*ast.Ident)
			if !ok || id.Name != timeName {
				return true
			}
			switch se.Sel.Name {
			case "Now", "Since", "Until", "NewTimer", "After", "AfterFunc", "Sleep", "NewTicker", "Tick":
				from := fset.Position(se.Pos()).Offset
				to := fset.Position(se.End()).Offset
				site := fmt.Sprintf("%s:%d", filepath.ToSlash(rel), fset.Position(se.Pos()).Line)
				inss = append(inss, ins{off: from, del: to - from, text: fmt.Sprintf("verifyield.%s(%q)", se.Sel.Name, site)})
				nClock++
			}
			return true
		})
	}
	if len(inss) == 0 {
		return data, 0, 0, nil
	}
	nFuncs := len(inss) - nClock - nStmt
	instrStmtCount += nStmt
	if nClock > 0 {
		// keep the time import used whatever else the file does with it
		inss = append(inss, ins{off: len(data), text: "\nvar _ = " + timeName + ".Now\n"})
	}
	// the import goes right after the package clause (a further import declaration is legal there)
	pkgEnd := fset.Position(f.Name.End()).Offset
	inss = append(inss, ins{off: pkgEnd, text: "; import \"github.com/zmap/zlint/v3/verifyield\""})
	sort.SliceStable(inss, func(i, j int) bool { return inss[i].off > inss[j].off })
	out := append([]byte(nil), data...)
	for _, x := range inss {
		out = append(out[:x.off], append([]byte(x.text), out[x.off+x.del:]...)...)
	}
	return out, nFuncs, nClock, nil
}
