package main

// Which batches make up the check of each property.

func checkPlanFor(prop, tier string) *checkPlan {
	q := tier == "quick"
	n := func(quick, thorough int) int {
		if q {
			return quick
		}
		return thorough
	}
	comp := map[string][]string{"real": realComponents, "stub": stubComponents}
	histAssume := []string{
		"the fresh-process reference is the implementation itself run with an empty history; a change that alters a lint's verdict identically in every history is invisible here (that is C02/C03/C06..., not claimed)",
		"Timestamp is excluded from comparison",
	}
	switch prop {
	case "C05":
		return &checkPlan{Prop: prop, Level: "exploration", BudgetS: n(240, 2400), Measure: "nontrivial",
			Batches: []batchSpec{
				{Label: "hist", Engine: "hist", Prop: "C05", Runs: n(320, 20000), FaultFree: true, Share: 5},
				{Label: "repeat-sweep", Engine: "hist", Prop: "C05", Mode: "sweep:%d/64", Runs: n(64, 64), FaultFree: true},
				{Label: "synth-repeat", Engine: "hist", Prop: "C05", Mode: "synthsweep:%d/1", Runs: n(96, 2500), FaultFree: true},
				{Label: "clock-jumps", Engine: "hist", Prop: "C05", Mode: "clock", Bin: "fg", Runs: n(160, 6000)},
				{Label: "panic-injection", Engine: "hist", Prop: "C05", Mode: "panicinj", Bin: "fg", Runs: n(160, 6000)},
				{Label: "env", Engine: "hist", Prop: "C05", Runs: n(96, 1500), Special: "env"},
				{Label: "syscall-audit", Engine: "hist", Prop: "C05", Runs: n(48, 400), Special: "audit", Audit: true},
			},
			Rule: "one run = one seeded sequential history (10-60 ops: lint on 4 paths, repeat-in-place, Filter, SetConfiguration, registry reads) over 1-8 corpus/mutated objects in one fresh process; every lint result of every op is compared with the fresh-process reference ref(object, lint, configuration). A checked lint op is non-trivial when an earlier checked op in the same process used a different object, registry or configuration; distinct = distinct (seed, op, object, selection, configuration) tuples.",
			Assumption: append(histAssume,
				"I/O freedom is decided only for the executions explored (syscall audit of seeded runs under strace), not for all programs",
				"Go map iteration order cannot be seeded: a map-order defect is found with probability <1 per repetition; the repeat-sweep batch repeats every corpus object R times to push that probability up"),
			Components: comp}
	case "C07":
		return &checkPlan{Prop: prop, Level: "exploration", BudgetS: n(240, 2400), Measure: "selection_pairs",
			Batches: []batchSpec{
				{Label: "hist", Engine: "hist", Prop: "C07", Runs: n(320, 16000), FaultFree: true, Share: 3},
				{Label: "synth-selections", Engine: "hist", Prop: "C07", Mode: "synthsel:%d/1", Runs: n(96, 3000), FaultFree: true},
			},
			Rule:       "one run = one seeded history in which the same object bytes are linted under several registries derived by nested Filter calls (singletons, all-but-one, prefixes, by source, by regexp, random subsets), on the same parsed object and on fresh twins, in both orders; every selected lint's (status, details) must equal the fresh-process single-lint reference and the result of every other selection in the run; keys must equal the model's selection; flags of a narrower run must be raised by the wider run. distinct_nontrivial = distinct (object, configuration, selection A, selection B) pairs compared with A != B.",
			Assumption: append(histAssume, "weak fit (DESIGN 4.4): the history varied is the sequence of other lint executions sharing one parsed object"),
			Components: comp}
	case "C08":
		return &checkPlan{Prop: prop, Level: "exploration", BudgetS: n(240, 2400), Measure: "filter_shapes_seeded",
			Batches: []batchSpec{
				{Label: "hist", Engine: "hist", Prop: "C08", Runs: n(400, 20000), FaultFree: true},
			},
			Rule:       "one run = one seeded history of Filter / SetConfiguration / Lint / read ops over a growing graph of registries (nested filtering, aliases for empty options); after every op every registry created so far is compared with the reference model (documented precedence, trimming, unknown-name and pattern+names errors, kind and metadata kept, configuration inherited at filter time, source unchanged). distinct_nontrivial = distinct (seed, op, option shape, outcome) of Filter ops checked.",
			Assumption: []string{"the model is written from the doc comments of FilterOptions/Filter and the property text", "which lints exist is read from the live registry (C12 is not claimed)", "partial fit (DESIGN 4.5): the pure selection rule is decided as a by-product of refinement over histories"},
			Components: comp}
	case "C11":
		return &checkPlan{Prop: prop, Level: "fault_enumeration", BudgetS: n(240, 2400), Measure: "nontrivial",
			Batches: []batchSpec{
				{Label: "hist+transport-faults", Engine: "hist", Prop: "C11", Runs: n(400, 20000), Share: 3},
				{Label: "hist-fault-free", Engine: "hist", Prop: "C11", Mode: "nofault", Runs: n(120, 6000), FaultFree: true},
				{Label: "torn-file-sweep", Engine: "hist", Prop: "C11", Mode: "tornsweep:%d/32", Runs: n(32, 256)},
				{Label: "fault-probes", Engine: "fault", Prop: "C11", Runs: n(960, 12000)},
			},
			Rule:       "one run = one seeded history of LoadConfig (string / fault-injecting reader / real file: chunking, (n>0,EOF), (n>0,err), error after k bytes, torn at k, missing, directory) / SetConfiguration / Filter / Lint ops over 2-5 configurations of classes empty, neutral, example, option-setting, ill-typed, odd; every lint result is compared with the fresh-process reference under the configuration the model says the registry holds, unnamed lints with the no-configuration reference, the ill-typed lint must be fatal with a configuration message and no recovered-panic marker, and no panic may reach the caller on the certificate, CRL and OCSP paths. distinct_nontrivial as for C05.",
			Assumption: append(histAssume, "only the clearly inapplicable shapes (scalar, array, array of tables, wrong field type) are judged 'must be fatal'; odd shapes are judged for no-panic and locality only"),
			Components: comp}
	}
	return checkPlanMore(prop, tier, n, comp, histAssume)
}

func checkPlanMore(prop, tier string, n func(int, int) int, comp map[string][]string, histAssume []string) *checkPlan {
	switch prop {
	case "C04":
		return &checkPlan{Prop: prop, Level: "fault_enumeration", BudgetS: n(240, 2400), Measure: "lifecycle_cells",
			Batches: []batchSpec{
				{Label: "fault", Engine: "fault", Prop: "C04", Runs: n(480, 24000)},
			},
			Rule: "one run = one seeded history over 2-5 objects chosen by scope class (clearly in / clearly out of the TLS, S/MIME and code-signing documents, CRL, OCSP) and re-dated before / inside / after the probes' windows, 1-3 registries holding probe lints (every kind x source x configurable x window shape) next to real lints, 1-3 configurations (legal, inapplicable, odd); each probe op scripts every selected probe's outcome (applicability, each of the 8 statuses and out-of-range values, details incl. non-UTF-8, panics of four kinds at three points) and judges result and call log against the lifecycle model; direct ops compare every real lint's framework result with its own CheckApplies/Execute on a fresh, freshly configured instance. distinct_nontrivial = distinct lifecycle cells (kind, scope class, configurable, configuration state, applies, window shape, window position, scripted status, panic kind/point) judged.",
			Assumption: []string{
				"'clearly out of scope' is defined conservatively from the property text (EKU present without the relevant/any purpose and no CA/B Forum policy OID); objects in between are not judged",
				"window positions within one day of a bound are not judged (the boundary instant is C03, not claimed)",
				"for OCSP responses the position is judged only when thisUpdate, nextUpdate and producedAt fall on the same side",
				"extra calls the property does not forbid (a second CheckApplies) are not judged",
			},
			Components: comp}
	case "C10":
		return &checkPlan{Prop: prop, Level: "exploration", BudgetS: n(300, 3000), Measure: "nontrivial",
			Batches: []batchSpec{
				{Label: "sched", Engine: "sched", Prop: "C10", Runs: n(2000, 60000), FaultFree: true, Share: 2},
				{Label: "sched-finegrain", Engine: "sched", Prop: "C10", Mode: "fg", Bin: "fg", Runs: n(300, 20000), FaultFree: true, Share: 2},
				{Label: "finegrain-pair-sweep", Engine: "sched", Prop: "C10", Mode: "fgpair:%d/1000000", Bin: "fg", Runs: n(128, 1500), FaultFree: true},
				{Label: "race-gomaxprocs1", Engine: "sched", Prop: "C10", Mode: "free", Race: true, MaxProcs: 1, Runs: n(20, 150), FaultFree: true},
				{Label: "race-gomaxprocs4", Engine: "sched", Prop: "C10", Mode: "free", Race: true, MaxProcs: 4, Runs: n(24, 150), FaultFree: true},
				{Label: "race-gomaxprocs16", Engine: "sched", Prop: "C10", Mode: "free", Race: true, MaxProcs: 16, Runs: n(30, 200), FaultFree: true},
				{Label: "race-jitter", Engine: "sched", Prop: "C10", Mode: "freejit", Race: true, Bin: "fgrace", MaxProcs: 8, Runs: n(0, 160), FaultFree: true},
				{Label: "race-gomaxprocs64", Engine: "sched", Prop: "C10", Mode: "free", Race: true, MaxProcs: 64, Runs: n(12, 100), FaultFree: true},
			},
			Rule: "sched batch: one run = 2-8 simulated clients (real goroutines), each with a seeded list of Lint*Ex (own parsed objects), Filter, Names, Sources, ByName, BySource, WriteJSON, DefaultConfiguration and per-kind lookups over 1-4 shared registries (global and pre-filtered, with different configurations naming every configurable lint); exactly one client runs at a time and a seeded schedule (round-robin, Bernoulli p in {0.01,0.1,0.5}, PCT depth 1-5, or targeted: every client parked at the same lifecycle phase of the same lint) decides at every yield site (lint constructor, Configure, CheckApplies, Execute, registry reads) who runs next; every op's result must equal the serial twin's (same op lists, client after client, in a fresh process). race batches: the same kind of workload with 4-16 free-running clients under the Go race detector at GOMAXPROCS 1/4/16 and 64 (more processors than the machine has) (race report, runtime fatal error, deadlock or mismatch with the serial twin = violation). distinct_nontrivial = distinct schedules with at least one preemption inside a Lint op while the resumed client is also inside a Lint op.",
			Assumption: []string{
				"SetConfiguration is excluded from the concurrent alphabet (the property speaks of reading the registry)",
				"yield sites are at lifecycle grain: two lint bodies are interleaved only at their boundaries in the sched batch; the race batches run bodies truly in parallel but their thread schedule is not controlled",
				"the registry wrapper presents per-client copies of the lint structs around the shared real constructors and real registries",
				"Timestamp is ignored",
			},
			Components: map[string][]string{"real": realComponents, "stub": append([]string{"registry wrapper shells (yield before constructor / Configure / CheckApplies / Execute / registry reads) and the baton scheduler"}, stubComponents...)}}
	case "C15":
		return &checkPlan{Prop: prop, Level: "fault_enumeration", BudgetS: n(300, 3000), Measure: "nontrivial",
			Batches: []batchSpec{
				{Label: "cli+faults", Engine: "cli", Prop: "C15", Runs: n(500, 30000)},
				{Label: "cli-fault-free", Engine: "cli", Prop: "C15", Mode: "nofault", Runs: n(200, 10000), FaultFree: true},
				{Label: "truncation-sweep", Engine: "cli", Prop: "C15", Mode: "truncsweep:%d", Runs: n(64, 64*24)},
			},
			Rule: "one run = 4-16 invocations of the real zlint binary built from the working tree; each invocation draws output mode (JSON, -pretty, -summary, -longSummary and combinations), selection flags, an optional -config file, 1-4 input files or stdin (written in a seeded chunk plan, each chunk handed over only after the child consumed the previous one), an encoding (PEM/DER/base64, suffix or -format stated) and stream/selector faults (truncate at k, empty, one flipped byte, garbage prefix/suffix, missing path, directory, wrong PEM armor, wrong stated format, lying suffix, unknown name/source/profile, bad regexp, pattern+names, missing or truncated configuration). Oracle: the delivered bytes are classified with the public decoders; acceptable inputs must give exit 0 and results equal to the in-process library with the same selection and configuration (and summary counts equal to the counts of those results), the first unacceptable input must give exit != 0 with result objects for the inputs before it only, selector faults must give exit != 0 and no result object. distinct_nontrivial = invocations with a fault fired or several inputs.",
			Assumption: []string{
				"inputs whose classification the property does not fix (other PEM block types, CRLs outside PEM armor, contradictory suffix and -format, base64 with surrounding blanks) are generated rarely and judged only as 'exit 0 => output equals the library on the object the harness can obtain from the bytes'",
				"only the counts of the summary tables are judged, not the (truncated) lint names of the long table",
				"the harness binary carries probe lints the CLI binary does not have; they are removed from the library side before comparison and never named in selections",
			},
			Components: map[string][]string{"real": append([]string{"the zlint command-line binary built from v3/cmd/zlint (flag parsing, setLints, doLint, formattedoutput) as a child process"}, realComponents...),
				"stub": {"stdin pipe transport with seeded chunk plan and consumed-before-next handshake (FIONREAD)", "scratch input / configuration files with injected faults"}}}
	case "C01":
		return &checkPlan{Prop: prop, Level: "fault_enumeration", BudgetS: n(240, 2400), Measure: "status_mix_cells",
			Batches: []batchSpec{
				{Label: "fault", Engine: "fault", Prop: "C01", Runs: n(320, 16000)},
				{Label: "hist-hostile", Engine: "hist", Prop: "C01", Runs: n(240, 12000), FaultFree: true},
				{Label: "panic-injection", Engine: "hist", Prop: "C01", Mode: "panicinj", Bin: "fg", Runs: n(200, 8000)},
			},
			Rule: "after every lint call of every run the result set is checked against the registry model: non-nil, keys = exactly the model's lints of the object's kind, every result non-nil with the registered metadata and one of the seven statuses, each presence flag <=> some result has that status, version = major version of the module path; a panic reaching the harness's recover is a violation; injected probe panics must come back as that probe's fatal result; every real lint's result is compared with the fresh-process reference. Fault batch: scripted status mixes (all 16 flag masks x 3 kinds driven explicitly), probe panics, inapplicable configurations; hist batch: real lints over corpus and mutated (byte-flipped, re-dated) objects through nested filters. distinct_nontrivial = distinct (kind, flag mask, selection size class) cells observed.",
			Assumption: []string{"the clause 'real lints emit only the seven statuses on every input' is monitored on every result seen, but the search is not aimed at inputs (C02 is not claimed)", "hang detection is a wall-clock watchdog per worker process (a hang inside a lint body reaches no yield point)"},
			Components: comp}
	}
	return nil
}
