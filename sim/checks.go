package main

// Which batches make up the check of each property.

func checkPlanFor(prop, tier string) *checkPlan {
	q := tier == "quick"
	n := func(quick, thorough int) int {
		if q {
			return quick
		}
		return thorough
	}
	comp := map[string][]string{"real": realComponents, "stub": stubComponents}
	switch prop {
	case "C05":
		return &checkPlan{Prop: prop, Level: "exploration", BudgetS: n(150, 1800), Measure: "nontrivial",
			Batches: []batchSpec{
				{Label: "hist", Engine: "hist", Prop: "C05", Runs: n(400, 20000), FaultFree: true},
			},
			Rule: "one run = one seeded sequential history (10-60 ops: lint on 4 paths, repeat-in-place, Filter, SetConfiguration, registry reads) over 1-8 corpus/mutated objects in one fresh process; every lint result of every op is compared with the fresh-process reference ref(object, lint, configuration). A checked lint op is non-trivial when an earlier checked op in the same process used a different object, registry or configuration; distinct = distinct (seed, op, object, selection, configuration) tuples.",
			Assumption: []string{
				"the fresh-process reference is the implementation itself run with an empty history; a change that alters a lint's verdict identically in every history is invisible here (that is C02/C03/C06..., not claimed)",
				"Timestamp is excluded from comparison",
				"I/O freedom is decided only for the executions explored (syscall audit of seeded runs), not for all programs",
			},
			Components: comp}
	}
	return nil
}
