package main

// Probe lints: stubs the simulator owns, registered in the global registry
// through the public Register* API from this binary's init(). Their behaviour
// is scripted per op (component outcomes = the injected faults of C01/C04/C11)
// and every method call is appended to a call log.

import (
	"errors"
	"fmt"
	"strings"
	"sync/atomic"
	"time"

	"github.com/zmap/zcrypto/x509"
	"github.com/zmap/zlint/v3/lint"
	"golang.org/x/crypto/ocsp"
)

var (
	probeEff   = time.Date(2016, 1, 1, 0, 0, 0, 0, time.UTC)
	probeIneff = time.Date(2022, 1, 1, 0, 0, 0, 0, time.UTC)
)

type probeDef struct {
	Name         string
	Kind         int
	Source       lint.LintSource
	Configurable bool
	Window       string // none | eff | ineff | both
}

var probeDefs []*probeDef
var probeByName = map[string]*probeDef{}

func isProbeName(n string) bool { return strings.Contains(n, "_zsimprobe_") }

// Action is what a probe does in one execution.
type Action struct {
	Applies bool   `json:"applies"`
	Status  int    `json:"status"`
	Details string `json:"details,omitempty"`
	Echo    bool   `json:"echo,omitempty"`     // details = the option values this instance received
	Panic   string `json:"panic,omitempty"`    // "", string, error, runtime, custom
	PanicAt string `json:"panic_at,omitempty"` // applies | execute | configure
}

// Script maps probe name to its action. Probes without an entry behave by
// default: configurable probes apply and echo their options with status pass,
// plain probes do not apply.
type Script map[string]Action

var curScript Script

func actionFor(p *probeDef) Action {
	if a, ok := curScript[p.Name]; ok {
		return a
	}
	if p.Configurable {
		return Action{Applies: true, Status: int(lint.Pass), Echo: true}
	}
	if strings.HasSuffix(p.Name, "_none") {
		// unscripted plain probes without a window apply and pass: like most real rules they keep
		// what their applicability test saw in the instance and use it in the rule body (sameObject)
		return Action{Applies: true, Status: int(lint.Pass)}
	}
	return Action{Applies: false}
}

// ProbeCfg is the option struct of configurable probes.
type ProbeCfg struct {
	Flag bool   `toml:"flag" comment:"zsim probe flag"`
	Num  int    `toml:"num"`
	Text string `toml:"text"`
	// a reference to a higher-scoped (global) configuration: the framework fills it in whenever it
	// configures the lint, whether or not the lint's own section exists
	BR *lint.CABFBaselineRequirementsConfig `toml:"-"`
}

func (c ProbeCfg) String() string {
	return fmt.Sprintf("flag=%v num=%d text=%q global=%v", c.Flag, c.Num, c.Text, c.BR != nil)
}

// ---- call log

type CallEvent struct {
	Inst   int64  `json:"inst"`
	Probe  string `json:"probe"`
	Method string `json:"method"`
	Ret    string `json:"ret,omitempty"`
	Opts   string `json:"opts,omitempty"`
}

var (
	probeInstCounter int64
	probeLogging     bool
	callLog          []CallEvent
)

func logCall(e CallEvent) {
	if probeLogging {
		callLog = append(callLog, e)
	}
}

type customPanic struct{ Probe string }

type ptrError struct{ msg string }

func (e *ptrError) Error() string { return "zsim-injected: " + e.msg }

type evilStringer struct{}

func (evilStringer) String() string { panic("zsim-injected: the panic value's String method panics") }

func doPanic(kind, name string) {
	switch kind {
	case "string":
		panic("zsim-injected-panic in " + name)
	case "error":
		panic(errors.New("zsim-injected-error-panic in " + name))
	case "runtime":
		var m map[string]int
		m[name] = 1 // assignment to entry in nil map
	case "custom":
		panic(customPanic{name})
	case "nilerr":
		// an error value holding a nil pointer whose Error method dereferences its receiver
		var e *ptrError
		panic(error(e))
	case "evilstringer":
		panic(evilStringer{})
	}
}

// probe instance, common part
type probeInst struct {
	def *probeDef
	id  int64
	cfg ProbeCfg
	// the object the applicability test was asked about: a rule may keep what it computed there for its
	// body, which is sound only if each execution has an instance of its own
	seen any
}

// sameObject: the rule body is asked about the object the applicability test of this instance saw.
func (p *probeInst) sameObject(o any, r *lint.LintResult) *lint.LintResult {
	if p.seen != nil && p.seen != o {
		return &lint.LintResult{Status: lint.Error, Details: "zsim: this instance's applicability test was asked about another object than its rule body"}
	}
	return r
}

func newInst(d *probeDef) probeInst {
	id := atomic.AddInt64(&probeInstCounter, 1)
	logCall(CallEvent{Inst: id, Probe: d.Name, Method: "New"})
	return probeInst{def: d, id: id, cfg: ProbeCfg{Num: 7, Text: "default"}}
}

func (p *probeInst) configure() interface{} {
	a := actionFor(p.def)
	logCall(CallEvent{Inst: p.id, Probe: p.def.Name, Method: "Configure"})
	if a.Panic != "" && a.PanicAt == "configure" {
		doPanic(a.Panic, p.def.Name)
	}
	return &p.cfg
}

func (p *probeInst) applies() bool {
	a := actionFor(p.def)
	logCall(CallEvent{Inst: p.id, Probe: p.def.Name, Method: "CheckApplies", Ret: fmt.Sprint(a.Applies), Opts: p.cfg.String()})
	if a.Panic != "" && a.PanicAt == "applies" {
		doPanic(a.Panic, p.def.Name)
	}
	return a.Applies
}

func (p *probeInst) execute() *lint.LintResult {
	a := actionFor(p.def)
	logCall(CallEvent{Inst: p.id, Probe: p.def.Name, Method: "Execute", Opts: p.cfg.String()})
	if a.Panic != "" && (a.PanicAt == "execute" || a.PanicAt == "") {
		doPanic(a.Panic, p.def.Name)
	}
	d := a.Details
	if a.Echo {
		d = "opts: " + p.cfg.String()
	}
	return &lint.LintResult{Status: lint.LintStatus(a.Status), Details: d}
}

// six concrete types: {cert, crl, ocsp} x {plain, configurable}
type certProbe struct{ probeInst }
type certProbeC struct{ probeInst }
type crlProbe struct{ probeInst }
type crlProbeC struct{ probeInst }
type ocspProbe struct{ probeInst }
type ocspProbeC struct{ probeInst }

func (p *certProbe) CheckApplies(c *x509.Certificate) bool          { p.seen = c; return p.applies() }
func (p *certProbe) Execute(c *x509.Certificate) *lint.LintResult   { return p.sameObject(c, p.execute()) }
func (p *certProbeC) CheckApplies(c *x509.Certificate) bool         { p.seen = c; return p.applies() }
func (p *certProbeC) Execute(c *x509.Certificate) *lint.LintResult  { return p.sameObject(c, p.execute()) }
func (p *certProbeC) Configure() interface{}                        { return p.configure() }
func (p *crlProbe) CheckApplies(c *x509.RevocationList) bool        { p.seen = c; return p.applies() }
func (p *crlProbe) Execute(c *x509.RevocationList) *lint.LintResult { return p.sameObject(c, p.execute()) }
func (p *crlProbeC) CheckApplies(c *x509.RevocationList) bool       { p.seen = c; return p.applies() }
func (p *crlProbeC) Execute(c *x509.RevocationList) *lint.LintResult {
	return p.sameObject(c, p.execute())
}
func (p *crlProbeC) Configure() interface{}                   { return p.configure() }
func (p *ocspProbe) CheckApplies(c *ocsp.Response) bool       { p.seen = c; return p.applies() }
func (p *ocspProbe) Execute(c *ocsp.Response) *lint.LintResult { return p.sameObject(c, p.execute()) }
func (p *ocspProbeC) CheckApplies(c *ocsp.Response) bool      { p.seen = c; return p.applies() }
func (p *ocspProbeC) Execute(c *ocsp.Response) *lint.LintResult {
	return p.sameObject(c, p.execute())
}
func (p *ocspProbeC) Configure() interface{} { return p.configure() }

var probeSources = []struct {
	short string
	src   lint.LintSource
}{
	{"br", lint.CABFBaselineRequirements},
	{"smime", lint.CABFSMIMEBaselineRequirements},
	{"cs", lint.CABFCSBaselineRequirements},
	{"rfc", lint.RFC5280},
	{"community", lint.Community},
}

var probeWindows = []string{"none", "eff", "ineff", "both"}

func registerProbes() {
	i := 0
	for kind := 0; kind < 3; kind++ {
		for _, s := range probeSources {
			for _, conf := range []bool{false, true} {
				for _, w := range probeWindows {
					cn := "plain"
					if conf {
						cn = "cfg"
					}
					d := &probeDef{
						Name:         fmt.Sprintf("%c_zsimprobe_%s_%s_%s_%s", "ewn"[i%3], kindNames[kind], s.short, cn, w),
						Kind:         kind,
						Source:       s.src,
						Configurable: conf,
						Window:       w,
					}
					i++
					probeDefs = append(probeDefs, d)
					probeByName[d.Name] = d
					meta := lint.LintMetadata{
						Name:        d.Name,
						Description: "zsim probe lint (stub owned by the simulator)",
						Citation:    "zsim",
						Source:      d.Source,
					}
					if w == "eff" || w == "both" {
						meta.EffectiveDate = probeEff
					}
					if w == "ineff" || w == "both" {
						meta.IneffectiveDate = probeIneff
					}
					registerProbe(d, meta)
				}
			}
		}
	}
}

func registerProbe(d *probeDef, meta lint.LintMetadata) {
	d2 := d
	switch d.Kind {
	case KCert:
		ctor := func() lint.CertificateLintInterface { return &certProbe{newInst(d2)} }
		if d.Configurable {
			ctor = func() lint.CertificateLintInterface { return &certProbeC{newInst(d2)} }
		}
		lint.RegisterCertificateLint(&lint.CertificateLint{LintMetadata: meta, Lint: ctor})
	case KCRL:
		ctor := func() lint.RevocationListLintInterface { return &crlProbe{newInst(d2)} }
		if d.Configurable {
			ctor = func() lint.RevocationListLintInterface { return &crlProbeC{newInst(d2)} }
		}
		lint.RegisterRevocationListLint(&lint.RevocationListLint{LintMetadata: meta, Lint: ctor})
	case KOCSP:
		ctor := func() lint.OcspResponseLintInterface { return &ocspProbe{newInst(d2)} }
		if d.Configurable {
			ctor = func() lint.OcspResponseLintInterface { return &ocspProbeC{newInst(d2)} }
		}
		lint.RegisterOcspResponseLint(&lint.OcspResponseLint{LintMetadata: meta, Lint: ctor})
	}
}

// Late probes: defined here, but registered (through the same public API) only when a
// run's history says so - after the registry has been listed, filtered and linted with.
// Registration at run time is part of the public API; what was looked up or cached
// before it must not hide the new lint from later listings, filters and runs.
var lateProbeDefs = func() []*probeDef {
	var out []*probeDef
	i := 0
	for kind := 0; kind < 3; kind++ {
		for _, v := range []struct {
			src  lint.LintSource
			conf bool
		}{{lint.RFC5280, false}, {lint.Community, true}, {lint.CABFBaselineRequirements, false}} {
			cn := "plain"
			if v.conf {
				cn = "cfg"
			}
			out = append(out, &probeDef{Name: fmt.Sprintf("%c_zsimprobe_late_%s_%s_%d", "wne"[i%3], kindNames[kind], cn, i), Kind: kind, Source: v.src, Configurable: v.conf, Window: "none"})
			i++
		}
	}
	return out
}()

var lateRegistered = map[string]bool{}

func lateProbeMeta(d *probeDef) lint.LintMetadata {
	return lint.LintMetadata{Name: d.Name, Description: "zsim late probe lint (registered at run time)", Citation: "zsim", Source: d.Source}
}

// registerLate registers late probe k in the global registry; false if it already is.
func registerLate(k int) (d *probeDef, done bool, panicked string) {
	d = lateProbeDefs[k%len(lateProbeDefs)]
	if lateRegistered[d.Name] {
		return d, false, ""
	}
	defer func() {
		if r := recover(); r != nil {
			panicked = fmt.Sprint(r)
		}
	}()
	probeByName[d.Name] = d
	registerProbe(d, lateProbeMeta(d))
	lateRegistered[d.Name] = true
	return d, true, ""
}

// addLate adds a late probe to a metadata table (model side of the register op).
func (t *MetaTable) addLate(d *probeDef) {
	if _, ok := t.ByName[d.Name]; ok {
		return
	}
	t.ByName[d.Name] = &LintMeta{Name: d.Name, Kind: d.Kind, Source: string(d.Source), Configurable: d.Configurable, Meta: lateProbeMeta(d), Probe: true}
	t.Names = sortedKeys(t.ByName)
}

// A lint that must never run: what a second registration under an existing name tries to add.
type dupCert struct{}
type dupCRL struct{}
type dupOCSP struct{}

func dupResult() *lint.LintResult {
	return &lint.LintResult{Status: lint.Fatal, Details: "zsim: a lint whose registration was rejected as a duplicate ran"}
}
func (dupCert) CheckApplies(*x509.Certificate) bool            { return true }
func (dupCert) Execute(*x509.Certificate) *lint.LintResult     { return dupResult() }
func (dupCRL) CheckApplies(*x509.RevocationList) bool          { return true }
func (dupCRL) Execute(*x509.RevocationList) *lint.LintResult   { return dupResult() }
func (dupOCSP) CheckApplies(*ocsp.Response) bool               { return true }
func (dupOCSP) Execute(*ocsp.Response) *lint.LintResult        { return dupResult() }

// registerDuplicate tries to register another lint under the name of late probe d (already
// registered). The API documents a panic for that; it is recovered here and reported back.
func registerDuplicate(d *probeDef) (panicked bool) {
	defer func() {
		if r := recover(); r != nil {
			panicked = true
		}
	}()
	meta := lateProbeMeta(d)
	meta.Description = "zsim duplicate of " + d.Name
	switch d.Kind {
	case KCert:
		lint.RegisterCertificateLint(&lint.CertificateLint{LintMetadata: meta, Lint: func() lint.CertificateLintInterface { return dupCert{} }})
	case KCRL:
		lint.RegisterRevocationListLint(&lint.RevocationListLint{LintMetadata: meta, Lint: func() lint.RevocationListLintInterface { return dupCRL{} }})
	case KOCSP:
		lint.RegisterOcspResponseLint(&lint.OcspResponseLint{LintMetadata: meta, Lint: func() lint.OcspResponseLintInterface { return dupOCSP{} }})
	}
	return false
}
