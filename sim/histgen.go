package main

// HIST engine, generation half: one sequential op history per run over a few
// objects, registries and configurations; every choice drawn from the run's
// PRNG in a fixed order. The registry reference model is stepped while
// generating so that registry indices in later ops are well defined.

import (
	"fmt"
	"regexp"
	"sort"
	"strings"
	"time"
)

type histProfile struct {
	wLint, wRepeat, wFilter, wSetCfg, wRead, wPattern, wDefaultCfg int
	regP                                                         float64 // share of runs in which late probes are registered mid-history
	cfgClasses                                                   []string
	cfgMin, cfgMax                                               int
	mutShare                                                     []float64
	crlP, ocspP                                                  float64
	errFilterP                                                   float64
	synthP                                                       float64
}

func profileFor(prop string) histProfile {
	switch prop {
	case "C07":
		return histProfile{wLint: 30, wRepeat: 0, wFilter: 30, wSetCfg: 8, wRead: 2, wPattern: 35, wDefaultCfg: 0,
			cfgClasses: []string{"neutral", "option", "option", "illtyped"}, cfgMin: 0, cfgMax: 2, mutShare: []float64{0, 0.1, 0.3}, crlP: 0.3, ocspP: 0.15, errFilterP: 0.03, synthP: 0.3, regP: 0.3}
	case "C08":
		return histProfile{wLint: 10, wRepeat: 0, wFilter: 45, wSetCfg: 12, wRead: 25, wPattern: 8, wDefaultCfg: 0,
			cfgClasses: []string{"neutral", "option", "empty"}, cfgMin: 1, cfgMax: 3, mutShare: []float64{0}, crlP: 0.3, ocspP: 0.2, errFilterP: 0.25, regP: 0.3}
	case "C11":
		return histProfile{wLint: 35, wRepeat: 0, wFilter: 8, wSetCfg: 22, wRead: 3, wPattern: 25, wDefaultCfg: 7,
			cfgClasses: []string{"empty", "neutral", "neutral", "example", "option", "option", "option", "illtyped", "illtyped", "illtyped", "odd"},
			cfgMin: 2, cfgMax: 5, mutShare: []float64{0, 0.1}, crlP: 0.6, ocspP: 0.3, errFilterP: 0.02, synthP: 0.15, regP: 0.15}
	case "C01":
		return histProfile{wLint: 55, wRepeat: 0, wFilter: 20, wSetCfg: 6, wRead: 4, wPattern: 15, wDefaultCfg: 0,
			cfgClasses: []string{"neutral", "option", "illtyped"}, cfgMin: 0, cfgMax: 2, mutShare: []float64{0.3, 0.5, 0.8}, crlP: 0.5, ocspP: 0.3, errFilterP: 0.05, synthP: 0.4, regP: 0.3}
	}
	// C05
	return histProfile{wLint: 40, wRepeat: 8, wFilter: 8, wSetCfg: 6, wRead: 8, wPattern: 30, wDefaultCfg: 1,
		cfgClasses: []string{"neutral", "option", "option", "example"}, cfgMin: 0, cfgMax: 3, mutShare: []float64{0, 0, 0.15, 0.3}, crlP: 0.35, ocspP: 0.15, errFilterP: 0.03, synthP: 0.25, regP: 0.15}
}

type histGen struct {
	g     *RNG
	meta  *MetaTable
	p     *Plan
	prof  histProfile
	mregs []*ModelReg
	audit bool // no file I/O ops (the run is going to be audited at the syscall boundary)

	ensureLoaded func(c int) bool
}

func genHist(seed uint64, prop, tier string, audit bool, mode string) *Plan {
	switch {
	case strings.HasPrefix(mode, "synthsweep"):
		return genSynthSweep(seed, prop, tier, mode)
	case strings.HasPrefix(mode, "synthsel"):
		return genSynthSel(seed, prop, tier, mode)
	case strings.HasPrefix(mode, "sweep"):
		return genSweep(seed, prop, tier, mode)
	case strings.HasPrefix(mode, "tornsweep"):
		return genTornSweep(seed, prop, tier, mode)
	}
	g := newRNG(seed)
	meta := readMetaTable()
	idx := corpusIndex()
	prof := profileFor(prop)
	p := &Plan{Engine: "hist", Prop: prop, Seed: seed, Tier: tier, Knobs: map[string]any{}}
	hg := &histGen{g: g, meta: meta, p: p, prof: prof, audit: audit}

	// ---- knobs (swarm: drawn per run)
	nObj := 1 + g.weighted([]int{3, 4, 4, 2, 1, 1, 1, 1})
	mut := pick(g, prof.mutShare)
	maxOps := 40
	if tier == "thorough" {
		maxOps = 60
	}
	nOps := g.Range(10, maxOps)
	wantCRL := g.Chance(prof.crlP)
	wantOCSP := g.Chance(prof.ocspP)
	repR := 50
	if tier == "thorough" {
		repR = 500
	}
	p.Knobs["n_objects"] = nObj
	p.Knobs["mutated_share"] = mut
	p.Knobs["n_ops_target"] = nOps
	p.Knobs["repeat_R"] = repR

	// ---- objects
	for i := 0; i < nObj; i++ {
		kind := KCert
		if wantCRL && i == 0 {
			kind = KCRL
		} else if wantOCSP && i == 1 {
			kind = KOCSP
		} else if g.Chance(0.08) {
			kind = KCRL
		}
		o := drawCorpusObject(g, idx, kind)
		if o == nil {
			o = drawCorpusObject(g, idx, KCert)
		}
		if o == nil {
			die(2, "corpus yields no parseable object")
		}
		o = maybeSynth(g, idx, o, prof.synthP)
		if mode == "clock" && kind == KCert && g.Chance(0.4) {
			if c := pickClass(g, func(e *corpusClassEntry) bool { return len(e.Clk) > 0 }); c != nil {
				o = c
			}
		}
		if g.Chance(mut) {
			if k := g.Intn(10); k < 5 {
				if v := flipVariant(g, o); v != nil {
					o = v
				}
			} else if k < 8 {
				if v := tweakVariant(g, o); v != nil {
					o = v
				}
			} else if k == 8 {
				// next to a lint's effective / ineffective date (where a clock or time-zone dependence would show)
				var bounds []time.Time
				for _, n := range meta.Names {
					m := meta.ByName[n]
					if m.Kind == o.Kind && !m.Probe {
						if !m.Eff.IsZero() {
							bounds = append(bounds, m.Eff)
						}
						if !m.Ineff.IsZero() {
							bounds = append(bounds, m.Ineff)
						}
					}
				}
				if len(bounds) > 0 {
					off := pick(g, []time.Duration{0, -time.Second, time.Second, -time.Hour, 5 * time.Hour, -7 * time.Hour, 13 * time.Hour, -24 * time.Hour})
					if v := redate(o, pick(g, bounds).Add(off)); v != nil {
						o = v
					}
				}
			} else {
				yrs := []int{2009, 2013, 2017, 2019, 2021, 2023, 2025}
				when := objectDateOf(o).AddDate(0, 0, 0)
				when = when.AddDate(pick(g, yrs)-when.Year(), 0, 0)
				if v := redate(o, when); v != nil {
					o = v
				}
			}
		}
		p.Objects = append(p.Objects, *o)
	}

	// a large CRL comes with a sibling (another large list over the same serial numbers)
	for i := 0; i < nObj; i++ {
		if strings.HasPrefix(p.Objects[i].ID, "synth-crlbig:") && len(p.Objects) < 9 {
			if sib := synthBigCRL(g, idx); sib != nil {
				p.Objects = append(p.Objects, *sib)
			}
		}
	}
	// ---- configurations
	nCfg := g.Range(prof.cfgMin, prof.cfgMax)
	for i := 0; i < nCfg; i++ {
		c := genCfg(g, meta, pick(g, prof.cfgClasses))
		if !tomlOK(c.Text) {
			c = CfgSpec{Class: "empty", Text: "", Via: "string"}
		}
		// C11: now and then a very long document - more than a mebibyte of commentary ahead of the sections
		// (whatever bounds what it reads must say so, not act on the part it happened to read)
		if prop == "C11" && (c.Class == "option" || c.Class == "illtyped") && g.Chance(0.04) {
			pad := strings.Repeat("# "+strings.Repeat("commentary ", 9)+"\n", g.Range(10500, 13000))
			c.Text = pad + c.Text
			if c.TextWithoutIll != "" || c.Ill != "" {
				c.TextWithoutIll = pad + c.TextWithoutIll
			}
			p.Knobs["long_document"] = true
		}
		// C11: some configurations arrive through a faulty transport
		if prop == "C11" && !strings.Contains(mode, "nofault") && g.Chance(0.35) {
			hg.addTransport(&c)
		}
		p.Cfgs = append(p.Cfgs, c)
	}
	// a sibling for some option-setting configurations: the same lints named with other values, so that
	// one run holds two configurations between which a named lint's verdict can flip back and forth
	for i := 0; i < nCfg && len(p.Cfgs) < 6; i++ {
		if c := p.Cfgs[i]; c.Class == "option" && len(c.Targets) > 0 && g.Chance(0.45) {
			var sb strings.Builder
			for _, t := range c.Targets {
				sb.WriteString(legalSection(g, t, configurableFields(t)))
			}
			if tomlOK(sb.String()) {
				p.Cfgs = append(p.Cfgs, CfgSpec{Class: "option", Text: sb.String(), Targets: c.Targets, Via: "string"})
			}
		}
	}
	p.Knobs["n_cfgs"] = len(p.Cfgs)
	for _, c := range p.Cfgs {
		for _, t := range c.Targets {
			if isProbeName(t) || !g.Chance(0.6) || len(p.Objects) >= 9 {
				continue
			}
			t := t
			if t == "e_rsa_fermat_factorization" && g.Chance(0.6) {
				// a key on which the configured round count decides the verdict
				if o := synthWeakKeyCert(g, idx); o != nil {
					p.Objects = append(p.Objects, *o)
					continue
				}
			}
			if o := pickClass(g, func(e *corpusClassEntry) bool { return inList(e.Conf, t) }); o != nil {
				p.Objects = append(p.Objects, *o)
			}
		}
	}

	// ---- ops
	all := map[string]bool{}
	for _, n := range meta.Names {
		all[n] = true
	}
	hg.mregs = []*ModelReg{{Sel: all, Cfg: -1}}
	loaded := map[int]bool{}
	hg.ensureLoaded = func(c int) bool {
		if c < 0 || loaded[c] {
			return c < 0 || hg.cfgUsable(c)
		}
		loaded[c] = true
		p.Ops = append(p.Ops, Op{K: "loadcfg", Cfg: c})
		return hg.cfgUsable(c)
	}
	// an initial registry or two so that filtered registries are in play early
	if g.Chance(0.7) {
		hg.emitFilter(g.Intn(len(hg.mregs)))
	}
	// late registration: in a share of the runs one to three late probes are registered through the
	// public API somewhere in the middle of the history (after listings, filters and lint calls)
	regAt := map[int]bool{}
	if g.Chance(prof.regP) && !audit {
		for k := g.Range(1, 3); k > 0; k-- {
			regAt[g.Range(3, nOps)] = true
		}
	}
	p.Knobs["late_registrations"] = len(regAt)
	for len(p.Ops) < nOps {
		if regAt[len(p.Ops)] {
			delete(regAt, len(p.Ops))
			hg.emitRegister()
			continue
		}
		w := []int{prof.wLint, prof.wRepeat, prof.wFilter, prof.wSetCfg, prof.wRead, prof.wPattern, prof.wDefaultCfg}
		switch g.weighted(w) {
		case 0:
			hg.emitLint(g.Intn(len(p.Objects)), g.Intn(len(hg.mregs)), g.Chance(0.35))
		case 1:
			rr := 0
			if g.Chance(0.4) {
				rr = g.Intn(len(hg.mregs))
			}
			p.Ops = append(p.Ops, Op{K: "repeat", Obj: g.Intn(len(p.Objects)), Reg: rr, R: repR})
		case 2:
			if len(hg.mregs) < 6 {
				hg.emitFilter(g.Intn(len(hg.mregs)))
			} else {
				hg.emitLint(g.Intn(len(p.Objects)), g.Intn(len(hg.mregs)), false)
			}
		case 3:
			hg.emitSetCfg(g.Intn(len(hg.mregs)))
		case 4:
			hg.emitRead(g.Intn(len(hg.mregs)))
		case 5:
			hg.emitPattern()
		case 6:
			p.Ops = append(p.Ops, Op{K: "defaultcfg", Reg: g.Intn(len(hg.mregs))})
		}
	}
	if g.Chance(0.6) {
		p.Ops = append(p.Ops, Op{K: "fresh", Reg: g.Intn(len(hg.mregs))})
	}
	if mode == "clock" && g.Chance(0.3) && len(p.Objects) < 9 && len(p.Cfgs) < 6 {
		// the one computation whose length the user sets: a key that Fermat's method factors only after many
		// rounds, under a configuration that grants just enough of them. Whatever limits a computation by the
		// time it takes shows here (the run's timers may fire early)
		var slow []int
		for i, e := range fermatPool {
			if e.K >= 999 {
				slow = append(slow, i)
			}
		}
		if len(slow) > 0 {
			wi := pick(g, slow)
			synthForceWeakIdx = wi
			o := synthWeakKeyCert(g, idx)
			synthForceWeakIdx = -1
			if o != nil {
				p.Objects = append(p.Objects, *o)
				p.Cfgs = append(p.Cfgs, CfgSpec{Class: "option", Text: fmt.Sprintf("[e_rsa_fermat_factorization]\nRounds = %d\n", fermatPool[wi].K+g.Range(0, 3)), Targets: []string{"e_rsa_fermat_factorization"}, Via: "string"})
				c := len(p.Cfgs) - 1
				if hg.ensureLoaded(c) {
					p.Ops = append(p.Ops, Op{K: "setcfg", Reg: 0, Cfg: c})
					hg.mregs[0].Cfg = c
					p.Ops = append(p.Ops, Op{K: "lint", Obj: len(p.Objects) - 1, Reg: 0, Path: "ex"})
					p.Knobs["long_computation"] = true
				}
			}
		}
	}
	if mode == "clock" {
		addClockJumps(g, meta, p)
	}
	if mode == "panicinj" {
		// fault injection into real rule bodies (fine-grain build): a seeded share of the certificate
		// lint ops make whichever rule executes a seeded statement of that call panic there; the ops
		// after it are the history-after-a-fault the reference comparison then judges
		p.Knobs["worker_mode"] = "panicinj"
		p.Knobs["finegrain"] = true
		var ops []Op
		for _, op := range p.Ops {
			if op.K == "lint" && p.Objects[op.Obj].Kind == KCert && g.Chance(0.4) {
				op.Inj = g.U64() | 1
				ops = append(ops, op)
				if g.Chance(0.7) {
					// the same bytes again right after the fault, with everything: must be as if nothing had happened
					ops = append(ops, Op{K: "lint", Obj: op.Obj, Reg: 0, Fresh: g.Chance(0.6), Path: "ex"})
				}
				continue
			}
			ops = append(ops, op)
		}
		p.Ops = ops
	}
	addGC(g, p)
	return p
}

// addGC: the garbage collector is a scheduler of its own - when it runs decides what pools, weak
// references and finalizers hold. In a share of the runs forced collections are placed at seeded
// points of the history (two cycles each: the second one empties what the first moved to the
// pools' victim caches) and the collector's pace is set for the whole run.
func addGC(g *RNG, p *Plan) {
	if !g.Chance(0.35) {
		return
	}
	p.Knobs["gcpercent"] = pick(g, []int{100, 100, 1, 10, 800})
	pr := pick(g, []float64{0.1, 0.3, 0.6})
	var ops []Op
	n := 0
	for _, op := range p.Ops {
		if op.K != "clock" && g.Chance(pr) {
			ops = append(ops, Op{K: "gc"})
			n++
		}
		ops = append(ops, op)
	}
	p.Ops = ops
	p.Knobs["forced_gc"] = n
}

// addClockJumps turns a history into one under a simulated clock (fine-grain build): the clock
// is set before the first op and jumps - backwards and forwards, by seconds or by decades - before
// a seeded share of the lint and repeat ops; some repeat ops advance it between repetitions.
// Instants are drawn from fixed epochs, the lints' effective / ineffective dates, the validity
// bounds of the run's certificates and the delegation era of the new gTLDs, each +- a small offset:
// the places where a rule that consulted the clock would change its mind.
func addClockJumps(g *RNG, meta *MetaTable, p *Plan) {
	p.Knobs["worker_mode"] = "clock"
	p.Knobs["finegrain"] = true
	var pool []time.Time
	for _, y := range []int{1971, 1999, 2008, 2012, 2013, 2014, 2015, 2016, 2018, 2020, 2022, 2024, 2026, 2027, 2031, 2038, 2050, 2106, 2500} {
		pool = append(pool, time.Date(y, time.Month(1+g.Intn(12)), 1+g.Intn(28), g.Intn(24), g.Intn(60), g.Intn(60), 0, time.UTC))
	}
	nFixed := len(pool)
	for _, n := range meta.Names {
		m := meta.ByName[n]
		if m.Probe {
			continue
		}
		if !m.Eff.IsZero() {
			pool = append(pool, m.Eff)
		}
		if !m.Ineff.IsZero() {
			pool = append(pool, m.Ineff)
		}
	}
	nDates := len(pool)
	for i := range p.Objects {
		if pp, err := parseObj(p.Objects[i].Kind, p.Objects[i].DER); err == nil {
			switch pp.Kind {
			case KCert:
				pool = append(pool, pp.Cert.NotBefore, pp.Cert.NotAfter)
			case KCRL:
				pool = append(pool, pp.CRL.ThisUpdate, pp.CRL.NextUpdate)
			case KOCSP:
				pool = append(pool, pp.OCSP.ThisUpdate, pp.OCSP.NextUpdate, pp.OCSP.ProducedAt)
			}
		}
	}
	draw := func() int64 {
		var t time.Time
		switch k := g.Intn(10); {
		case k < 3:
			t = pool[g.Intn(nFixed)]
		case k < 6 && nDates > nFixed:
			t = pool[nFixed+g.Intn(nDates-nFixed)]
		case len(pool) > nDates:
			t = pool[nDates+g.Intn(len(pool)-nDates)]
		default:
			t = pool[g.Intn(len(pool))]
		}
		t = t.Add(pick(g, []time.Duration{0, -time.Second, time.Second, -time.Hour, 36 * time.Hour, -36 * time.Hour, 400 * 24 * time.Hour, -400 * 24 * time.Hour}))
		u := t.Unix()
		if u <= 0 {
			u = 86400
		}
		return u
	}
	var ops []Op
	ops = append(ops, Op{K: "clock", T: draw()})
	for _, op := range p.Ops {
		if (op.K == "lint" || op.K == "repeat" || op.K == "fresh") && g.Chance(0.55) {
			ops = append(ops, Op{K: "clock", T: draw()})
		}
		if op.K == "repeat" && g.Chance(0.7) {
			op.T = pick(g, []int64{1, 3600, 86400, 30 * 86400, 366 * 86400, -86400})
		}
		ops = append(ops, op)
	}
	p.Ops = ops
	// the timers of the code under test belong to the simulation too: in most clock runs whatever is to
	// take some time is over at once (a slow machine, a stopped process)
	p.Knobs["timers_early"] = g.Chance(0.6)
}

func objectDateOf(o *ObjSpec) (t time.Time) {
	p, err := parseObj(o.Kind, o.DER)
	if err != nil {
		return time.Time{}
	}
	return objectDate(p)
}

func (hg *histGen) cfgUsable(c int) bool {
	s := &hg.p.Cfgs[c]
	return !s.ExpectErr && !s.MayErr
}

// addTransport decides how a configuration reaches the library and predicts
// the outcome from the bytes that will actually be delivered.
func (hg *histGen) addTransport(c *CfgSpec) {
	g := hg.g
	vias := []string{"reader", "reader", "file", "file", "fifo", "file_missing", "file_dir"}
	if hg.audit {
		vias = []string{"reader"}
	}
	c.Via = pick(g, vias)
	switch c.Via {
	case "reader":
		c.Fault = genReaderFault(g, len(c.Text))
	case "file":
		// a torn file: truncated at byte k (or whole)
		c.Fault = &ReaderFault{ErrAfter: -1, EOFAfter: -1}
		if g.Chance(0.6) && len(c.Text) > 0 {
			c.Fault.EOFAfter = g.Intn(len(c.Text))
		}
	case "fifo":
		// a named pipe: no size to stat, bytes arrive in the writer's chunks, the writer may die early
		c.Fault = &ReaderFault{ErrAfter: -1, EOFAfter: -1, Chunks: []int{g.Range(1, 64)}}
		if g.Chance(0.3) && len(c.Text) > 0 {
			c.Fault.EOFAfter = g.Intn(len(c.Text))
		}
	case "file_missing", "file_dir":
		c.ExpectErr = true
		return
	}
	d, readErr := deliveredBytes(c.Text, c.Fault)
	c.Delivered = d
	switch {
	case readErr:
		c.ExpectErr = true
	case !tomlOK(d):
		c.ExpectErr = true
	}
	if d != c.Text && !c.ExpectErr {
		// a shorter valid document: judge it as what it now says
		*c = reclassifyTorn(*c, hg.meta)
	}
}

// reclassifyTorn describes a truncated-but-valid document conservatively: the
// lints it still names are targets; nothing is demanded to be fatal.
func reclassifyTorn(c CfgSpec, meta *MetaTable) CfgSpec {
	var targets []string
	for _, n := range meta.Names {
		if meta.ByName[n].Configurable && strings.Contains(c.Delivered, n) {
			targets = append(targets, n)
		}
	}
	c.Class = "torn"
	c.Targets = targets
	c.Ill, c.MustFatal, c.TextWithoutIll = "", false, ""
	return c
}

func (hg *histGen) emitLint(obj, reg int, fresh bool) {
	g := hg.g
	kind := hg.p.Objects[obj].Kind
	path := "ex"
	switch k := g.Intn(10); {
	case k == 0 && reg == 0:
		path = "global"
	case k == 1:
		path = "perlint"
	case k == 2 && kind == KCert:
		path = "deprecated"
	}
	op := Op{K: "lint", Obj: obj, Reg: reg, Fresh: fresh, Path: path}
	if path == "perlint" {
		op.Perm = g.U64() | 1
	}
	hg.p.Ops = append(hg.p.Ops, op)
}

// emitRegister: look at the registry (so that whatever it caches is warm), register a late probe,
// then filter and lint so that the new lint has to show up everywhere the model says it does.
func (hg *histGen) emitRegister() {
	g := hg.g
	p := hg.p
	k := g.Intn(len(lateProbeDefs))
	d := lateProbeDefs[k]
	if _, ok := hg.meta.ByName[d.Name]; ok {
		hg.emitLint(g.Intn(len(p.Objects)), 0, false)
		return
	}
	// an object of the probe's kind, if the run has one
	obj := -1
	for _, i := range g.Perm(len(p.Objects)) {
		if p.Objects[i].Kind == d.Kind {
			obj = i
			break
		}
	}
	if g.Chance(0.7) {
		p.Ops = append(p.Ops, Op{K: "names", Reg: 0})
	}
	if obj >= 0 && g.Chance(0.8) {
		hg.emitLint(obj, 0, false)
	}
	p.Ops = append(p.Ops, Op{K: "register", R: k, Name: d.Name, Fresh: g.Chance(0.4)})
	hg.meta.addLate(d)
	hg.mregs[0].Sel[d.Name] = true
	if obj >= 0 {
		hg.emitLint(obj, 0, g.Chance(0.3))
	}
	if len(hg.mregs) < 6 && g.Chance(0.8) {
		var o *FilterOpts
		switch g.Intn(4) {
		case 0:
			o = &FilterOpts{IncludeNames: []string{d.Name}}
		case 1:
			o = &FilterOpts{IncludeSources: []string{string(d.Source)}}
		case 2:
			re := "zsimprobe_late"
			o = &FilterOpts{NameFilter: &re}
		default:
			o = &FilterOpts{ExcludeSources: []string{"Mozilla"}}
		}
		c := hg.emitFilterOpts(0, o)
		if obj >= 0 && c >= 0 {
			hg.emitLint(obj, c, false)
		}
	}
}

func (hg *histGen) emitSetCfg(reg int) {
	if len(hg.p.Cfgs) == 0 {
		hg.emitLint(hg.g.Intn(len(hg.p.Objects)), reg, false)
		return
	}
	c := hg.g.Intn(len(hg.p.Cfgs)+1) - 1 // -1 = the empty configuration
	if !hg.ensureLoaded(c) {
		return // the load is expected to fail; nothing to set
	}
	hg.p.Ops = append(hg.p.Ops, Op{K: "setcfg", Reg: reg, Cfg: c})
	hg.mregs[reg].Cfg = c
}

func (hg *histGen) emitRead(reg int) {
	g := hg.g
	names := hg.mregs[reg].names()
	switch g.Intn(8) {
	case 7:
		hg.p.Ops = append(hg.p.Ops, Op{K: "fresh", Reg: reg})
	case 0:
		hg.p.Ops = append(hg.p.Ops, Op{K: "names", Reg: reg})
	case 1:
		hg.p.Ops = append(hg.p.Ops, Op{K: "sources", Reg: reg})
	case 2:
		n := "e_zsim_no_such_lint"
		if len(names) > 0 && g.Chance(0.8) {
			n = pick(g, names)
		} else if g.Chance(0.5) {
			n = pick(g, hg.meta.Names)
		}
		hg.p.Ops = append(hg.p.Ops, Op{K: "byname", Reg: reg, Name: n})
	case 3:
		hg.p.Ops = append(hg.p.Ops, Op{K: "bysource", Reg: reg, Source: pick(g, append(hg.meta.sources(), "Unknown", "RFC3279"))})
	case 4:
		hg.p.Ops = append(hg.p.Ops, Op{K: "writejson", Reg: reg})
	case 5:
		hg.p.Ops = append(hg.p.Ops, Op{K: "getcfg", Reg: reg})
	case 6:
		hg.p.Ops = append(hg.p.Ops, Op{K: "observe", Reg: reg})
	}
}

// emitFilter draws filter options against the parent's model and appends the
// op; returns the index of the new registry or -1 if the model predicts an error.
func (hg *histGen) emitFilter(parent int) int {
	o := genFilterOpts(hg.g, hg.meta, hg.mregs[parent], hg.prof.errFilterP)
	return hg.emitFilterOpts(parent, o)
}

func (hg *histGen) emitFilterOpts(parent int, o *FilterOpts) int {
	v := modelFilter(hg.meta, hg.mregs[parent], o)
	hg.p.Ops = append(hg.p.Ops, Op{K: "filter", Reg: parent, Opts: o})
	if v.Err {
		return -1
	}
	// Whether empty options alias the receiver is decided at execution time by
	// interface identity; for index purposes a registry slot is created either way.
	hg.mregs = append(hg.mregs, &ModelReg{Sel: v.Sel, Cfg: hg.mregs[parent].Cfg})
	return len(hg.mregs) - 1
}

func (hg *histGen) emitPattern() {
	g := hg.g
	p := hg.p
	nO := len(p.Objects)
	a := g.Intn(nO)
	b := g.Intn(nO)
	r := g.Intn(len(hg.mregs))
	switch g.Intn(12) {
	case 11: // sibling selections: two or three filters on one parent whose source (or name) lists share their
		// first entries and differ in the rest; every sibling is linted after the last one was made
		if len(hg.mregs) >= 4 {
			hg.emitLint(a, r, false)
			return
		}
		srcs := hg.mregs[r].sourceSet(hg.meta)
		names := hg.mregs[r].names()
		if len(srcs) < 3 || len(names) < 6 {
			r = 0
			srcs = hg.mregs[0].sourceSet(hg.meta)
			names = hg.mregs[0].names()
		}
		var kids []int
		nk := g.Range(2, 3)
		if g.Chance(0.7) {
			head := []string{pick(g, srcs)}
			if g.Chance(0.3) {
				head = append(head, pick(g, srcs))
			}
			for k := 0; k < nk; k++ {
				list := append([]string(nil), head...)
				for t := g.Range(1, 2); t > 0; t-- {
					list = append(list, pick(g, srcs))
				}
				kids = append(kids, hg.emitFilterOpts(r, &FilterOpts{IncludeSources: list}))
			}
		} else {
			var head []string
			for _, j := range g.subset(len(names), g.Range(1, 4)) {
				head = append(head, names[j])
			}
			for k := 0; k < nk; k++ {
				list := append([]string(nil), head...)
				for t := g.Range(1, 3); t > 0; t-- {
					list = append(list, pick(g, names))
				}
				kids = append(kids, hg.emitFilterOpts(r, &FilterOpts{IncludeNames: list}))
			}
		}
		for _, c := range kids {
			if c >= 0 {
				hg.emitLint(a, c, false)
			}
		}
		hg.emitLint(a, r, g.Chance(0.3))
	case 10: // two option values built side by side from the same first profile, then used one after the other (and again)
		pn := sortedKeys(harnessProfiles)
		if len(pn) < 3 || len(hg.mregs) >= 5 {
			hg.emitLint(a, r, false)
			return
		}
		ix := g.subset(len(pn), 3)
		o1 := &FilterOpts{Profiles: []string{pn[ix[0]], pn[ix[1]]}}
		o2 := &FilterOpts{Profiles: []string{pn[ix[0]], pn[ix[2]]}}
		if g.Chance(0.3) {
			o2.ExcludeSources = []string{"Mozilla"}
		}
		p.Ops = append(p.Ops, Op{K: "mkopts", Opts: o1}, Op{K: "mkopts", Opts: o2})
		c1 := hg.emitFilterOpts(0, o1)
		c2 := hg.emitFilterOpts(0, o2)
		c3 := hg.emitFilterOpts(0, o1)
		for _, c := range []int{c1, c2, c3} {
			if c >= 0 && g.Chance(0.5) {
				hg.emitLint(a, c, false)
			}
		}
	case 9: // equal options twice with a configuration set on the FIRST CHILD in between: the second child must not see it
		var cands []int
		for ci, c := range p.Cfgs {
			if len(c.Targets) > 0 && !c.ExpectErr && !c.MayErr {
				cands = append(cands, ci)
			}
		}
		if len(cands) == 0 || len(hg.mregs) >= 6 {
			hg.emitLint(a, r, false)
			return
		}
		ci := pick(g, cands)
		T := pick(g, p.Cfgs[ci].Targets)
		if !hg.mregs[r].Sel[T] {
			r = 0
		}
		if !hg.ensureLoaded(ci) {
			return
		}
		in := []string{T}
		names := hg.mregs[r].names()
		for _, j := range g.subset(len(names), g.Range(0, 6)) {
			in = append(in, names[j])
		}
		o := &FilterOpts{IncludeNames: in}
		if g.Chance(0.3) {
			o = &FilterOpts{IncludeSources: []string{hg.meta.ByName[T].Source}}
		}
		c1 := hg.emitFilterOpts(r, o)
		if c1 < 0 {
			return
		}
		p.Ops = append(p.Ops, Op{K: "setcfg", Reg: c1, Cfg: ci})
		hg.mregs[c1].Cfg = ci
		o2 := *o
		if o.IncludeNames != nil && g.Chance(0.5) {
			// the same set, spelled in another order
			o2.IncludeNames = append([]string(nil), o.IncludeNames...)
			for i, j := 0, len(o2.IncludeNames)-1; i < j; i, j = i+1, j-1 {
				o2.IncludeNames[i], o2.IncludeNames[j] = o2.IncludeNames[j], o2.IncludeNames[i]
			}
		}
		c2 := hg.emitFilterOpts(r, &o2)
		obj := a
		for oi := range p.Objects {
			if p.Objects[oi].Kind == hg.meta.ByName[T].Kind {
				obj = oi
			}
		}
		if c2 >= 0 {
			hg.emitLint(obj, c2, true)
		}
		hg.emitLint(obj, c1, g.Chance(0.5))
		hg.emitLint(obj, r, false)
	case 8: // a selection around a lint whose option the registry's configuration sets: parent and child must agree on it
		var cands []int
		for ci, c := range p.Cfgs {
			if len(c.Targets) > 0 && !c.ExpectErr && !c.MayErr {
				cands = append(cands, ci)
			}
		}
		if len(cands) == 0 || len(hg.mregs) >= 6 {
			hg.emitLint(a, r, false)
			return
		}
		ci := pick(g, cands)
		T := pick(g, p.Cfgs[ci].Targets)
		if !hg.mregs[r].Sel[T] {
			r = 0
		}
		if !hg.ensureLoaded(ci) {
			return
		}
		p.Ops = append(p.Ops, Op{K: "setcfg", Reg: r, Cfg: ci})
		hg.mregs[r].Cfg = ci
		in := []string{T}
		names := hg.mregs[r].names()
		for _, j := range g.subset(len(names), g.Range(0, 6)) {
			in = append(in, names[j])
		}
		child := hg.emitFilterOpts(r, &FilterOpts{IncludeNames: in})
		// an object of T's kind
		obj := a
		for oi := range p.Objects {
			if p.Objects[oi].Kind == hg.meta.ByName[T].Kind {
				obj = oi
			}
		}
		hg.emitLint(obj, r, true)
		if child >= 0 {
			hg.emitLint(obj, child, g.Chance(0.5))
		}
	case 7: // the same options twice, with a configuration change in between: two independent children
		if len(hg.mregs) >= 6 {
			hg.emitLint(a, r, false)
			return
		}
		o := genFilterOpts(g, hg.meta, hg.mregs[r], 0)
		c1 := hg.emitFilterOpts(r, o)
		if len(p.Cfgs) > 0 {
			cx := g.Intn(len(p.Cfgs)+1) - 1
			if hg.ensureLoaded(cx) {
				p.Ops = append(p.Ops, Op{K: "setcfg", Reg: r, Cfg: cx})
				hg.mregs[r].Cfg = cx
			}
		}
		o2 := *o
		c2 := hg.emitFilterOpts(r, &o2)
		if c1 >= 0 && c2 >= 0 {
			hg.emitLint(a, c2, false)
			if len(p.Cfgs) > 0 {
				cy := g.Intn(len(p.Cfgs)+1) - 1
				if hg.ensureLoaded(cy) {
					p.Ops = append(p.Ops, Op{K: "setcfg", Reg: c2, Cfg: cy})
					hg.mregs[c2].Cfg = cy
				}
			}
			hg.emitLint(a, c1, false)
			hg.emitLint(a, c2, false)
		}
	case 0: // X, X
		hg.emitLint(a, r, g.Chance(0.3))
		hg.emitLint(a, r, false)
	case 1: // X, Y, X
		hg.emitLint(a, r, false)
		hg.emitLint(b, g.Intn(len(hg.mregs)), g.Chance(0.5))
		hg.emitLint(a, r, false)
	case 2: // cfg1, lint, cfg2, lint, cfg1, lint
		if len(p.Cfgs) == 0 {
			hg.emitLint(a, r, false)
			return
		}
		c1 := g.Intn(len(p.Cfgs)+1) - 1
		c2 := g.Intn(len(p.Cfgs)+1) - 1
		for _, c := range []int{c1, c2, c1, -1} {
			if !hg.ensureLoaded(c) {
				continue
			}
			p.Ops = append(p.Ops, Op{K: "setcfg", Reg: r, Cfg: c})
			hg.mregs[r].Cfg = c
			hg.emitLint(a, r, false)
		}
	case 3: // parent / child alternately
		if len(hg.mregs) >= 7 {
			hg.emitLint(a, r, false)
			return
		}
		c := hg.emitFilter(r)
		hg.emitLint(a, r, true)
		if c >= 0 {
			hg.emitLint(a, c, g.Chance(0.5))
			hg.emitLint(a, r, false)
			hg.emitLint(a, c, true)
		}
	case 4: // configuration must not cross between parent and child
		if len(p.Cfgs) == 0 || len(hg.mregs) >= 7 {
			hg.emitLint(a, r, false)
			return
		}
		c := hg.emitFilter(r)
		if c < 0 {
			return
		}
		c1 := g.Intn(len(p.Cfgs))
		if hg.ensureLoaded(c1) {
			p.Ops = append(p.Ops, Op{K: "setcfg", Reg: c, Cfg: c1})
			hg.mregs[c].Cfg = c1
		}
		hg.emitLint(a, r, false)
		hg.emitLint(a, c, false)
		c2 := g.Intn(len(p.Cfgs)+1) - 1
		if hg.ensureLoaded(c2) {
			p.Ops = append(p.Ops, Op{K: "setcfg", Reg: r, Cfg: c2})
			hg.mregs[r].Cfg = c2
		}
		hg.emitLint(a, c, false)
		hg.emitLint(a, r, false)
	case 5: // deprecated path between Ex calls
		hg.emitLint(a, r, false)
		if p.Objects[a].Kind == KCert {
			p.Ops = append(p.Ops, Op{K: "lint", Obj: a, Reg: r, Path: "deprecated"})
		}
		hg.emitLint(a, r, false)
	case 6: // same selection, full vs singleton vs all-but-one (what ran before differs)
		if len(hg.mregs) >= 6 {
			hg.emitLint(a, r, false)
			return
		}
		kn := hg.mregs[r].namesOfKind(hg.meta, p.Objects[a].Kind)
		if len(kn) < 2 {
			hg.emitLint(a, r, false)
			return
		}
		n := pick(g, kn)
		c1 := hg.emitFilterOpts(r, &FilterOpts{IncludeNames: []string{n}})
		c2 := hg.emitFilterOpts(r, &FilterOpts{ExcludeNames: []string{pick(g, kn)}})
		hg.emitLint(a, r, true)
		if c1 >= 0 {
			hg.emitLint(a, c1, true)
			hg.emitLint(a, c1, false)
		}
		if c2 >= 0 {
			hg.emitLint(a, c2, true)
		}
		hg.emitLint(a, r, false)
	}
}

// ---------------------------------------------------------------- filter options

var filterRegexps = []string{
	`^e_`, `^w_`, `^n_`, `_crl_`, `zsimprobe`, `^$`, `.*`, `.`, `dnsname`, `^e_.*ca.*`, `[a-m]_`, `(?i)^E_`,
	`san|ian`, `^[ew]_(sub|root)_`, `ocsp`, `_ext_`, `^e_zsimprobe_cert_(br|rfc)_`, `rsa`, `\d`, `^.{1,25}$`, `x$`,
	// patterns that match every name with an empty leftmost match, or some names so
	``, `^`, `$`, `\b`, `z*`, `(ocsp)?`, `(?i)Q*`, `^(e_)?`, `x*$`,
}

func decorate(g *RNG, n string) string {
	ws := []string{" ", "\t", "\n", "  ", " \t"}
	if g.Chance(0.5) {
		n = pick(g, ws) + n
	}
	if g.Chance(0.5) {
		n = n + pick(g, ws)
	}
	return n
}

func unknownName(g *RNG, meta *MetaTable) string {
	for {
		n := unknownName1(g, meta)
		if _, known := meta.ByName[strings.TrimSpace(n)]; !known {
			return n
		}
	}
}

func unknownName1(g *RNG, meta *MetaTable) string {
	switch g.Intn(6) {
	case 0:
		return ""
	case 1:
		return " "
	case 2:
		return "e_zsim_no_such_lint"
	case 3: // right name, wrong case
		return strings.ToUpper(pick(g, meta.Names))
	case 4: // a proper prefix of a real name
		n := pick(g, meta.Names)
		return n[:len(n)-1]
	}
	return pick(g, meta.Names) + "_x"
}

func genFilterOpts(g *RNG, meta *MetaTable, parent *ModelReg, errP float64) *FilterOpts {
	names := parent.names()
	srcs := parent.sourceSet(meta)
	allSrcs := append(meta.sources(), "Unknown", "RFC3279", "RFC5480", "RFC8813", "NoSuchSource", "CABF", "cabf_br", "CABF_BR ", "RFC", "CABF_SMIME", "CABF_CS", "Mozilla ", "ETSI")
	o := &FilterOpts{}
	pickNames := func(k int) []string {
		if len(names) == 0 {
			return nil
		}
		var out []string
		for _, i := range g.subset(len(names), k) {
			out = append(out, names[i])
		}
		return out
	}
	if len(names) == 0 {
		// only source filters / regexps / unknown names make sense on an empty registry
		switch g.Intn(3) {
		case 0:
			s := `^e_`
			o.NameFilter = &s
		case 1:
			o.IncludeSources = []string{pick(g, allSrcs)}
		case 2:
			o.IncludeNames = []string{unknownName(g, meta)}
		}
		return o
	}
	mode := g.weighted([]int{10, 8, 8, 10, 8, 10, 10, 6, 4, 3, 6})
	switch mode {
	case 0: // singleton
		o.IncludeNames = pickNames(1)
	case 1: // all but one / few
		o.ExcludeNames = pickNames(g.Range(1, 3))
	case 2: // prefix or suffix of the sorted order
		k := g.Range(1, len(names))
		if g.Chance(0.5) {
			o.IncludeNames = append([]string(nil), names[:k]...)
		} else {
			o.IncludeNames = append([]string(nil), names[len(names)-k:]...)
		}
	case 3: // by source
		if g.Chance(0.15) {
			o.IncludeSources = []string{pick(g, allSrcs)}
			if g.Chance(0.3) {
				o.IncludeSources = append(o.IncludeSources, pick(g, allSrcs))
			}
		} else if len(srcs) > 0 && g.Chance(0.6) {
			o.IncludeSources = []string{pick(g, srcs)}
			if g.Chance(0.3) {
				o.IncludeSources = append(o.IncludeSources, pick(g, allSrcs))
			}
		} else {
			o.ExcludeSources = []string{pick(g, allSrcs)}
			if g.Chance(0.3) {
				o.ExcludeSources = append(o.ExcludeSources, pick(g, allSrcs))
			}
		}
		if g.Chance(0.25) { // both: exclusion wins
			o.IncludeSources = append(o.IncludeSources, pick(g, allSrcs))
			o.ExcludeSources = append(o.ExcludeSources, pick(g, allSrcs))
		}
	case 4: // regexp
		s := pick(g, filterRegexps)
		if g.Chance(0.25) {
			ns := pickNames(g.Range(1, 3))
			for i := range ns {
				ns[i] = regexp.QuoteMeta(ns[i])
			}
			s = "^(" + strings.Join(ns, "|") + ")$"
		}
		o.NameFilter = &s
		if g.Chance(0.3) {
			o.ExcludeSources = []string{pick(g, allSrcs)}
		}
	case 5: // random subset
		k := g.Range(1, len(names))
		if g.Chance(0.6) && k > 40 {
			k = g.Range(1, 40)
		}
		o.IncludeNames = pickNames(k)
	case 6: // include and exclude lists together (+ sources)
		o.IncludeNames = pickNames(g.Range(2, 12))
		o.ExcludeNames = pickNames(g.Range(1, 4))
		if g.Chance(0.3) && len(o.IncludeNames) > 0 {
			o.ExcludeNames = append(o.ExcludeNames, o.IncludeNames[0])
		}
		if g.Chance(0.3) {
			o.ExcludeSources = []string{pick(g, allSrcs)}
		}
		if g.Chance(0.2) {
			o.IncludeSources = []string{pick(g, srcs)}
		}
	case 7: // complement of a source, by names
		s := pick(g, srcs)
		for _, n := range names {
			if meta.ByName[n].Source != s {
				o.IncludeNames = append(o.IncludeNames, n)
			}
		}
		if len(o.IncludeNames) == 0 {
			o.IncludeNames = pickNames(1)
		}
	case 8: // empty options in their several spellings
		switch g.Intn(3) {
		case 0:
		case 1:
			o.IncludeNames = []string{}
			o.ExcludeSources = []string{}
		case 2:
			o.ExcludeNames = []string{}
			o.IncludeSources = []string{}
		}
		return o
	case 9: // duplicates
		ns := pickNames(g.Range(1, 3))
		o.IncludeNames = append(append([]string(nil), ns...), ns...)
		if g.Chance(0.5) {
			o.ExcludeSources = []string{"CABF_BR", "CABF_BR"}
		}
	case 10: // kind-specific: only CRL / OCSP lints by name
		k := pick(g, []int{KCRL, KOCSP})
		kn := parent.namesOfKind(meta, k)
		if len(kn) == 0 {
			o.IncludeNames = pickNames(1)
		} else {
			for _, i := range g.subset(len(kn), g.Range(1, len(kn))) {
				o.IncludeNames = append(o.IncludeNames, kn[i])
			}
			if g.Chance(0.4) {
				o.IncludeNames = append(o.IncludeNames, pickNames(2)...)
			}
		}
	}
	// stray whitespace around names
	if g.Chance(0.3) {
		for i := range o.IncludeNames {
			if g.Chance(0.5) {
				o.IncludeNames[i] = decorate(g, o.IncludeNames[i])
			}
		}
		for i := range o.ExcludeNames {
			if g.Chance(0.5) {
				o.ExcludeNames[i] = decorate(g, o.ExcludeNames[i])
			}
		}
	}
	// nil vs empty spelling of the unused lists
	if g.Chance(0.2) {
		if o.IncludeNames == nil {
			o.IncludeNames = []string{}
		}
		if o.ExcludeSources == nil {
			o.ExcludeSources = []string{}
		}
	}
	// documented error cases
	if g.Chance(errP) {
		switch g.Intn(5) {
		case 0:
			o.IncludeNames = append(o.IncludeNames, unknownName(g, meta))
		case 1:
			o.ExcludeNames = append(o.ExcludeNames, unknownName(g, meta))
		case 2: // pattern together with names
			s := pick(g, filterRegexps)
			o.NameFilter = &s
			if len(o.IncludeNames) == 0 && len(o.ExcludeNames) == 0 {
				if g.Chance(0.5) {
					o.IncludeNames = pickNames(1)
				} else {
					o.ExcludeNames = pickNames(1)
				}
			}
		case 3: // unknown name hidden behind a source filter that already empties the set
			o.ExcludeSources = append([]string(nil), meta.sources()...)
			o.ExcludeNames = []string{unknownName(g, meta)}
		case 4: // unknown excluded name next to a valid include
			o.IncludeNames = pickNames(1)
			o.ExcludeNames = []string{unknownName(g, meta)}
			o.NameFilter = nil
		}
	}
	// a profile or two added to the options (AddProfile appends its lint names to IncludeNames)
	if g.Chance(0.1) && len(harnessProfiles) > 0 {
		pn := sortedKeys(harnessProfiles)
		o.Profiles = []string{pick(g, pn)}
		if g.Chance(0.3) {
			o.Profiles = append(o.Profiles, pick(g, pn))
		}
	}
	sortIfAsked(g, o)
	return o
}

// sortIfAsked sometimes shuffles the name lists (a multiset has no order).
func sortIfAsked(g *RNG, o *FilterOpts) {
	if g.Chance(0.3) && len(o.IncludeNames) > 1 {
		p := g.Perm(len(o.IncludeNames))
		out := make([]string, len(p))
		for i, j := range p {
			out[i] = o.IncludeNames[j]
		}
		o.IncludeNames = out
	} else if g.Chance(0.1) {
		sort.Strings(o.IncludeNames)
	}
}

func (o *FilterOpts) String() string {
	nf := "<nil>"
	if o.NameFilter != nil {
		nf = *o.NameFilter
	}
	if len(o.Profiles) > 0 {
		return fmt.Sprintf("re=%s in=%d ex=%d insrc=%v exsrc=%v profiles=%v", nf, len(o.IncludeNames), len(o.ExcludeNames), o.IncludeSources, o.ExcludeSources, o.Profiles)
	}
	return fmt.Sprintf("re=%s in=%d ex=%d insrc=%v exsrc=%v", nf, len(o.IncludeNames), len(o.ExcludeNames), o.IncludeSources, o.ExcludeSources)
}
