//go:build amd64

package main

// getg returns the address of the running goroutine's descriptor: a cheap identity (a nanosecond, where
// parsing runtime.Stack costs microseconds at every yield site).
func getg() uintptr
