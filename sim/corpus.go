package main

// Workload objects: the repository's own test corpus plus seeded variants
// (byte flips the real parser still accepts, same-length re-dating).

import (
	"bytes"
	"encoding/base64"
	"encoding/pem"
	"fmt"
	"math/big"
	"net"
	"net/url"
	"os"
	"path/filepath"
	"reflect"
	"sort"
	"strings"
	"time"

	"github.com/zmap/zcrypto/x509"
	"golang.org/x/crypto/ocsp"
)

const (
	KCert = 0
	KCRL  = 1
	KOCSP = 2
)

var kindNames = []string{"cert", "crl", "ocsp"}

// ObjSpec is a workload object as it is stored in plans and replay files.
type ObjSpec struct {
	ID   string `json:"id"`
	Kind int    `json:"kind"`
	DER  []byte `json:"der"` // base64 in JSON
}

// parsed object (exactly one of the three is set)
type Parsed struct {
	Kind int
	Cert *x509.Certificate
	CRL  *x509.RevocationList
	OCSP *ocsp.Response
}

func parseObj(kind int, der []byte) (p *Parsed, err error) {
	defer func() {
		if r := recover(); r != nil {
			p, err = nil, fmt.Errorf("parser panic: %v", r)
		}
	}()
	switch kind {
	case KCert:
		c, err := x509.ParseCertificate(der)
		if err != nil {
			return nil, err
		}
		return &Parsed{Kind: kind, Cert: c}, nil
	case KCRL:
		c, err := x509.ParseRevocationList(der)
		if err != nil {
			return nil, err
		}
		return &Parsed{Kind: kind, CRL: c}, nil
	case KOCSP:
		o, err := ocsp.ParseResponse(der, nil)
		if err != nil {
			return nil, err
		}
		return &Parsed{Kind: kind, OCSP: o}, nil
	}
	return nil, fmt.Errorf("bad kind %d", kind)
}

func (p *Parsed) value() any {
	switch p.Kind {
	case KCert:
		return p.Cert
	case KCRL:
		return p.CRL
	}
	return p.OCSP
}

// ---------------------------------------------------------------- corpus

type corpusEntry struct {
	File string
	Kind int
}

func testdataDir() string {
	return envOr("ZSIM_CORPUS", filepath.Join(repoRoot(), "v3", "testdata"))
}

// corpusIndex lists testdata file names in sorted order (kind is only known
// after reading a file, see loadCorpusFile).
func corpusIndex() []string {
	ents, err := os.ReadDir(testdataDir())
	if err != nil {
		die(2, "cannot read corpus: %v", err)
	}
	var out []string
	for _, e := range ents {
		if e.IsDir() {
			continue
		}
		out = append(out, e.Name())
	}
	sort.Strings(out)
	return out
}

// loadCorpusFile returns the object in a testdata file, or nil if the file
// does not hold something the real parsers accept.
func loadCorpusFile(name string) *ObjSpec {
	data, err := os.ReadFile(filepath.Join(testdataDir(), name))
	if err != nil {
		return nil
	}
	kind := -1
	var der []byte
	if blk, _ := pem.Decode(data); blk != nil {
		switch blk.Type {
		case "CERTIFICATE":
			kind = KCert
		case "X509 CRL":
			kind = KCRL
		}
		der = blk.Bytes
	} else if strings.HasPrefix(name, "ocsp") {
		d, err := base64.StdEncoding.DecodeString(strings.TrimSpace(string(data)))
		if err == nil {
			kind, der = KOCSP, d
		}
	}
	if kind < 0 {
		return nil
	}
	if _, err := parseObj(kind, der); err != nil {
		return nil
	}
	return &ObjSpec{ID: kindNames[kind] + ":" + name, Kind: kind, DER: der}
}

// drawCorpusObject draws corpus files until one parses. wantKind<0: any kind
// (weighted towards certificates by the corpus itself).
func drawCorpusObject(g *RNG, idx []string, wantKind int) *ObjSpec {
	if wantKind == KCRL || wantKind == KOCSP {
		var sub []string
		for _, n := range idx {
			l := strings.ToLower(n)
			if (wantKind == KCRL && strings.Contains(l, "crl")) || (wantKind == KOCSP && strings.HasPrefix(l, "ocsp")) {
				sub = append(sub, n)
			}
		}
		idx = sub
	}
	for tries := 0; tries < 200 && len(idx) > 0; tries++ {
		o := loadCorpusFile(pick(g, idx))
		if o != nil && (wantKind < 0 || o.Kind == wantKind) {
			return o
		}
	}
	return nil
}

// ---------------------------------------------------------------- variants

// flipVariant flips 1..3 bytes; kept only if the real parser still accepts the
// result. Returns nil if no acceptable variant was found in a few tries.
func flipVariant(g *RNG, o *ObjSpec) *ObjSpec {
	for tries := 0; tries < 12; tries++ {
		d := append([]byte(nil), o.DER...)
		n := g.Range(1, 3)
		var desc []string
		for i := 0; i < n; i++ {
			pos := g.Intn(len(d))
			x := byte(g.Range(1, 255))
			d[pos] ^= x
			desc = append(desc, fmt.Sprintf("%d^%02x", pos, x))
		}
		if _, err := parseObj(o.Kind, d); err == nil {
			return &ObjSpec{ID: o.ID + "#flip(" + strings.Join(desc, ",") + ")", Kind: o.Kind, DER: d}
		}
	}
	return nil
}

// tweakVariant rewrites the value of one single-byte INTEGER / ENUMERATED /
// BOOLEAN of the DER (version numbers, reason codes, path lengths, flags):
// small, structure-preserving hostility. Kept only if the real parser accepts it.
func tweakVariant(g *RNG, o *ObjSpec) *ObjSpec {
	var cand []int
	for i := 0; i+2 < len(o.DER); i++ {
		if (o.DER[i] == 0x0a || o.DER[i] == 0x02 || o.DER[i] == 0x01) && o.DER[i+1] == 0x01 {
			cand = append(cand, i+2)
		}
	}
	for tries := 0; tries < 8 && len(cand) > 0; tries++ {
		pos := pick(g, cand)
		v := pick(g, []byte{0, 1, 2, 3, 7, 8, 10, 11, 12, 0x7f, 0x80, 0xff, byte(g.Intn(256))})
		if o.DER[pos] == v {
			continue
		}
		d := append([]byte(nil), o.DER...)
		d[pos] = v
		if _, err := parseObj(o.Kind, d); err == nil {
			return &ObjSpec{ID: fmt.Sprintf("%s#tweak(%d=%02x)", o.ID, pos, v), Kind: o.Kind, DER: d}
		}
	}
	return nil
}

// objectDate returns the date the framework compares with a lint's window.
func objectDate(p *Parsed) time.Time {
	switch p.Kind {
	case KCert:
		return p.Cert.NotBefore
	case KCRL:
		return p.CRL.ThisUpdate
	}
	return p.OCSP.NextUpdate
}

// redate patches the encoded date (UTCTime or GeneralizedTime, same length)
// that the framework compares with effective dates. Returns nil if the encoded
// form was not found exactly once or the result does not parse to the wanted
// instant.
func redate(o *ObjSpec, to time.Time) *ObjSpec {
	p, err := parseObj(o.Kind, o.DER)
	if err != nil {
		return nil
	}
	old := objectDate(p).UTC()
	to = to.UTC()
	try := func(layout string, tag byte) *ObjSpec {
		os_, ns := old.Format(layout), to.Format(layout)
		pat := append([]byte{tag, byte(len(os_))}, os_...)
		if bytes.Count(o.DER, pat) < 1 {
			return nil
		}
		i := bytes.Index(o.DER, pat)
		d := append([]byte(nil), o.DER...)
		copy(d[i+2:], ns)
		q, err := parseObj(o.Kind, d)
		if err != nil || !objectDate(q).Equal(to) {
			return nil
		}
		return &ObjSpec{ID: o.ID + "#date(" + to.Format("2006-01-02") + ")", Kind: o.Kind, DER: d}
	}
	if to.Year() >= 1950 && to.Year() < 2050 {
		if r := try("060102150405Z", 0x17); r != nil {
			return r
		}
	}
	return try("20060102150405Z", 0x18)
}

// ---------------------------------------------------------------- exported-field fingerprint

// exportedFingerprint renders every exported field of a parsed object,
// recursively, into a string; two objects with the same fingerprint agree on
// every exported field (the C05 "read-only" clause). Struct types of the
// parser packages are walked field by field (exported only); foreign leaf
// types are rendered by value.
func exportedFingerprint(v any) string {
	var sb strings.Builder
	fpWalk(&sb, reflect.ValueOf(v), 0)
	return sb.String()
}

var (
	tTime   = reflect.TypeOf(time.Time{})
	tBigInt = reflect.TypeOf(big.Int{})
	tIPNet  = reflect.TypeOf(net.IPNet{})
	tURL    = reflect.TypeOf(url.URL{})
)

func fpWalk(sb *strings.Builder, v reflect.Value, depth int) {
	if depth > 24 {
		sb.WriteString("<deep>")
		return
	}
	if !v.IsValid() {
		sb.WriteString("<invalid>")
		return
	}
	switch v.Kind() {
	case reflect.Ptr, reflect.Interface:
		if v.IsNil() {
			sb.WriteString("nil")
			return
		}
		sb.WriteString("&")
		fpWalk(sb, v.Elem(), depth+1)
	case reflect.Struct:
		t := v.Type()
		switch t {
		case tTime:
			if v.CanInterface() {
				tm := v.Interface().(time.Time)
				fmt.Fprintf(sb, "T(%d,%d,%s)", tm.Unix(), tm.Nanosecond(), tm.Location())
				return
			}
		case tBigInt:
			if v.CanAddr() && v.CanInterface() {
				fmt.Fprintf(sb, "B(%s)", v.Addr().Interface().(*big.Int).String())
				return
			} else if v.CanInterface() {
				b := v.Interface().(big.Int)
				fmt.Fprintf(sb, "B(%s)", b.String())
				return
			}
		case tURL:
			if v.CanInterface() {
				u := v.Interface().(url.URL)
				fmt.Fprintf(sb, "U(%q)", u.String())
				return
			}
		}
		sb.WriteString(t.Name())
		sb.WriteString("{")
		for i := 0; i < t.NumField(); i++ {
			f := t.Field(i)
			if f.PkgPath != "" { // unexported
				continue
			}
			sb.WriteString(f.Name)
			sb.WriteString(":")
			fpWalk(sb, v.Field(i), depth+1)
			sb.WriteString(",")
		}
		sb.WriteString("}")
	case reflect.Slice:
		if v.IsNil() {
			sb.WriteString("nil[]")
			return
		}
		if v.Type().Elem().Kind() == reflect.Uint8 {
			fmt.Fprintf(sb, "x%x", v.Bytes())
			return
		}
		fmt.Fprintf(sb, "[%d:", v.Len())
		for i := 0; i < v.Len(); i++ {
			fpWalk(sb, v.Index(i), depth+1)
			sb.WriteString(",")
		}
		sb.WriteString("]")
	case reflect.Array:
		sb.WriteString("[")
		for i := 0; i < v.Len(); i++ {
			fpWalk(sb, v.Index(i), depth+1)
			sb.WriteString(",")
		}
		sb.WriteString("]")
	case reflect.Map:
		if v.IsNil() {
			sb.WriteString("nilmap")
			return
		}
		type kv struct{ k, v string }
		var items []kv
		it := v.MapRange()
		for it.Next() {
			var kb, vb strings.Builder
			fpWalk(&kb, it.Key(), depth+1)
			fpWalk(&vb, it.Value(), depth+1)
			items = append(items, kv{kb.String(), vb.String()})
		}
		sort.Slice(items, func(i, j int) bool { return items[i].k < items[j].k })
		sb.WriteString("map{")
		for _, x := range items {
			sb.WriteString(x.k + "=>" + x.v + ";")
		}
		sb.WriteString("}")
	case reflect.String:
		fmt.Fprintf(sb, "%q", v.String())
	case reflect.Bool:
		fmt.Fprintf(sb, "%v", v.Bool())
	case reflect.Int, reflect.Int8, reflect.Int16, reflect.Int32, reflect.Int64:
		fmt.Fprintf(sb, "%d", v.Int())
	case reflect.Uint, reflect.Uint8, reflect.Uint16, reflect.Uint32, reflect.Uint64, reflect.Uintptr:
		fmt.Fprintf(sb, "%d", v.Uint())
	case reflect.Float32, reflect.Float64:
		fmt.Fprintf(sb, "%v", v.Float())
	case reflect.Func, reflect.Chan, reflect.UnsafePointer:
		if v.IsNil() {
			sb.WriteString("nilfn")
		} else {
			sb.WriteString("fn")
		}
	default:
		fmt.Fprintf(sb, "<%s>", v.Kind())
	}
}

// firstDiff gives a short description of where two fingerprints part.
func firstDiff(a, b string) string {
	n := len(a)
	if len(b) < n {
		n = len(b)
	}
	i := 0
	for i < n && a[i] == b[i] {
		i++
	}
	lo := i - 60
	if lo < 0 {
		lo = 0
	}
	hiA, hiB := i+60, i+60
	if hiA > len(a) {
		hiA = len(a)
	}
	if hiB > len(b) {
		hiB = len(b)
	}
	return fmt.Sprintf("at %d: fresh …%s… vs linted …%s…", i, a[lo:hiA], b[lo:hiB])
}
