package main

import (
	"flag"
	"fmt"
	"os"
	"strings"
	"sync"
	"time"
)


// selftestDeterminism: every engine/profile, N seeds, each seed in three fresh
// processes at GOMAXPROCS 1, 4 and 16 with 16 workers busy; the event logs must
// be byte-identical. Exit 0 all identical, 2 otherwise (never a VIOLATION).
func selftestDeterminism(args []string) {
	fs := flag.NewFlagSet("selftest-determinism", flag.ExitOnError)
	n := fs.Int("n", 70, "seeds per engine/profile")
	only := fs.String("only", "", "restrict to engine/prop/mode entries containing this text")
	fs.Parse(args)
	type ep struct{ engine, prop, mode, bin string }
	eps := []ep{{"hist", "C05", "", ""}, {"hist", "C07", "", ""}, {"hist", "C08", "", ""}, {"hist", "C11", "", ""}, {"hist", "C01", "", ""}, {"hist", "C11", "tornsweep:3/32", ""}, {"hist", "C07", "synthsel:3/1", ""},
		{"fault", "C04", "", ""}, {"fault", "C01", "", ""}, {"sched", "C10", "", ""}, {"cli", "C15", "", ""},
		{"hist", "C05", "clock", "fg"}, {"hist", "C01", "panicinj", "fg"}}
	if *only != "" {
		var keep []ep
		for _, e := range eps {
			if strings.Contains(e.engine+"/"+e.prop+"/"+e.mode, *only) {
				keep = append(keep, e)
			}
		}
		eps = keep
	}
	bad := 0
	total := 0
	var mu sync.Mutex
	var wg sync.WaitGroup
	sem := make(chan struct{}, workers())
	for _, e := range eps {
		for i := 0; i < *n; i++ {
			e, i := e, i
			wg.Add(1)
			sem <- struct{}{}
			go func() {
				defer wg.Done()
				defer func() { <-sem }()
				seed := runSeed(batchSeed()^0xd37, e.engine+e.mode, e.prop+"/selftest", i)
				var logs []string
				for _, mp := range []int{1, 4, 16} {
					spec := batchSpec{Engine: e.engine, Prop: e.prop, Mode: e.mode, MaxProcs: mp, Bin: e.bin}
					res, stderr, err := spawnRun(spec, "quick", seed, "", true, 300*time.Second)
					if err != nil {
						mu.Lock()
						bad++
						fmt.Printf("selftest: %s/%s seed %d GOMAXPROCS=%d: %v %s\n", e.engine, e.prop, seed, mp, err, clip(stderr, 300))
						mu.Unlock()
						return
					}
					logs = append(logs, strings.Join(res.Log, "\n")+"\n#"+res.TraceHash)
				}
				mu.Lock()
				total++
				if logs[0] != logs[1] || logs[0] != logs[2] {
					bad++
					a, b := strings.Split(logs[0], "\n"), strings.Split(logs[1], "\n")
					if logs[0] == logs[1] {
						b = strings.Split(logs[2], "\n")
					}
					for k := 0; k < len(a) && k < len(b); k++ {
						if a[k] != b[k] {
							fmt.Printf("selftest: %s/%s seed %d diverges at line %d:\n  %s\n  %s\n", e.engine, e.prop, seed, k+1, clip(a[k], 300), clip(b[k], 300))
							break
						}
					}
				}
				mu.Unlock()
			}()
		}
	}
	wg.Wait()
	fmt.Printf("selftest-determinism: %d seeds x 3 processes (GOMAXPROCS 1/4/16), %d diverged or failed\n", total, bad)
	if bad > 0 {
		os.Exit(2)
	}
}
