package main

import "time"

// placeholders until the SCHED and CLI engines are in place



type CLIStep struct{}

func (s CLIStep) summary() any { return nil }

func genCLI(seed uint64, prop, tier, mode string) *Plan     { die(2, "cli engine not built yet"); return nil }
func runCLI(p *Plan, keepLog bool) *RunResult               { die(2, "cli engine not built yet"); return nil }
func cliStubMain(args []string)                             {}
func selftestDeterminism(args []string)                     {}
func minimiseCLI(p *Plan, test func(*Plan) bool, deadline time.Time) *Plan   { return nil }

