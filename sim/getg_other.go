//go:build !amd64

package main

func getg() uintptr { return uintptr(goid()) }
