package main

// zsim — deterministic simulation harness for zlint (see /verif/DESIGN.md).
//
//   zsim run    --engine E --prop P --seed N [--tier T] [--plan file] [--log]   one run, one process
//   zsim oracle                                                              fresh-process reference (stdin/stdout JSON)
//   zsim drive  --prop P --tier quick|thorough                                 a whole check: many runs, evidence, verdict
//   zsim replay <file>                                                       re-execute a replay file in a fresh process
//
// Exit codes: 0 property held on everything explored; 1 violation; 2 harness,
// build or watchdog trouble (never accompanied by a VIOLATION line).

import (
	"flag"
	"fmt"
	"os"
	"strconv"
)

func init() {
	registerProbes()
	registerHarnessProfiles()
}

func main() {
	if len(os.Args) < 2 {
		die(2, "usage: zsim run|oracle|drive|replay ...")
	}
	switch os.Args[1] {
	case "oracle":
		oracleMain()
	case "run":
		runMain(os.Args[2:])
	case "drive":
		driveMain(os.Args[2:])
	case "replay":
		replayMain(os.Args[2:])
	case "selftest-determinism":
		selftestDeterminism(os.Args[2:])
	case "instrument":
		instrumentMain(os.Args[2:])
	default:
		die(2, "unknown subcommand %q", os.Args[1])
	}
}

// workerMode is the engine-specific mode of this worker process.
var workerMode string

func batchSeed() uint64 {
	if v := os.Getenv("VERIF_SEED"); v != "" {
		if n, err := strconv.ParseUint(v, 10, 64); err == nil {
			return n
		}
		if n, err := strconv.ParseInt(v, 10, 64); err == nil {
			return uint64(n)
		}
		return strHash64(v)
	}
	return 20260929
}

// runMain executes exactly one run and prints its RunResult as JSON.
func runMain(args []string) {
	fs := flag.NewFlagSet("run", flag.ExitOnError)
	engine := fs.String("engine", "hist", "hist|fault|sched|cli")
	prop := fs.String("prop", "C05", "property profile")
	seed := fs.Uint64("seed", 1, "run seed")
	tier := fs.String("tier", "quick", "quick|thorough")
	planFile := fs.String("plan", "", "execute this plan instead of deriving one from the seed")
	keepLog := fs.Bool("log", false, "include the event log in the result")
	withPlan := fs.Bool("emit-plan", false, "include the plan in the result")
	audit := fs.Bool("audit", false, "generate no file I/O ops (run is audited at the syscall boundary)")
	mode := fs.String("mode", "", "engine-specific mode")
	fs.Parse(args)

	var p *Plan
	if *planFile != "" {
		var err error
		p, err = readPlan(*planFile)
		if err != nil {
			die(2, "cannot read plan: %v", err)
		}
	} else {
		p = generatePlan(*engine, *prop, *seed, *tier, *audit, *mode)
	}
	workerMode = *mode
	if workerMode == "" && p.Knobs != nil {
		if m, ok := p.Knobs["worker_mode"].(string); ok {
			workerMode = m
		}
	}
	res := executePlan(p, *keepLog, *mode)
	if *withPlan || len(res.Violations) > 0 {
		res.Plan = p
	}
	if res.Sample == nil {
		res.Sample = p.summary()
	}
	os.Stdout.Write([]byte(mustJSON(res)))
	os.Stdout.Write([]byte("\n"))
	if res.HarnessErr != "" {
		fmt.Fprintln(os.Stderr, "zsim: harness error:", res.HarnessErr)
		os.Exit(2)
	}
}

func generatePlan(engine, prop string, seed uint64, tier string, audit bool, mode string) *Plan {
	switch engine {
	case "hist":
		return genHist(seed, prop, tier, audit, mode)
	case "fault":
		return genFault(seed, prop, tier)
	case "sched":
		return genSched(seed, prop, tier, mode)
	case "cli":
		return genCLI(seed, prop, tier, mode)
	}
	die(2, "unknown engine %q", engine)
	return nil
}

func executePlan(p *Plan, keepLog bool, mode string) *RunResult {
	switch p.Engine {
	case "hist":
		return runHist(p, keepLog)
	case "fault":
		return runFault(p, keepLog)
	case "sched":
		return runSched(p, keepLog, mode)
	case "cli":
		return runCLI(p, keepLog)
	}
	die(2, "unknown engine %q in plan", p.Engine)
	return nil
}
