package main

// Core of the simulator: the single source of choices (one PRNG per run seeded
// from VERIF_SEED-derived run seed), the in-memory event log with its trace
// hash, and small helpers shared by all engines.
//
// Rules kept everywhere in this package:
//   * no choice is ever drawn outside *RNG;
//   * logging never draws and never reads a clock;
//   * nothing ranges over a Go map where the order could reach the log, a
//     choice, or an output (maps are always walked through sortedKeys).

import (
	"crypto/sha256"
	"encoding/hex"
	"encoding/json"
	"fmt"
	"math/rand/v2"
	"os"
	"sort"
	"strings"
	"unicode/utf8"
)

// ---------------------------------------------------------------- PRNG

func splitmix64(x uint64) uint64 {
	x += 0x9e3779b97f4a7c15
	z := x
	z = (z ^ (z >> 30)) * 0xbf58476d1ce4e5b9
	z = (z ^ (z >> 27)) * 0x94d049bb133111eb
	return z ^ (z >> 31)
}

func strHash64(s string) uint64 {
	var h uint64 = 0xcbf29ce484222325
	for i := 0; i < len(s); i++ {
		h ^= uint64(s[i])
		h *= 0x100000001b3
	}
	return h
}

// runSeed derives the seed of run i of an engine/profile from the batch seed.
func runSeed(batch uint64, engine, prop string, i int) uint64 {
	s := splitmix64(batch ^ strHash64(engine+"/"+prop))
	return splitmix64(s + uint64(i)*0x9e3779b97f4a7c15)
}

type RNG struct {
	r     *rand.Rand
	draws int
}

func newRNG(seed uint64) *RNG {
	return &RNG{r: rand.New(rand.NewPCG(seed, splitmix64(seed)))}
}

func (g *RNG) Intn(n int) int {
	if n <= 0 {
		return 0
	}
	g.draws++
	return g.r.IntN(n)
}
func (g *RNG) Range(lo, hi int) int { return lo + g.Intn(hi-lo+1) } // inclusive
func (g *RNG) Chance(p float64) bool {
	g.draws++
	return g.r.Float64() < p
}
func (g *RNG) Float() float64 { g.draws++; return g.r.Float64() }
func (g *RNG) U64() uint64    { g.draws++; return g.r.Uint64() }
func (g *RNG) Perm(n int) []int {
	g.draws++
	return g.r.Perm(n)
}
func pick[T any](g *RNG, xs []T) T { return xs[g.Intn(len(xs))] }

// weighted returns an index drawn with the given integer weights.
func (g *RNG) weighted(w []int) int {
	t := 0
	for _, x := range w {
		t += x
	}
	if t <= 0 {
		return 0
	}
	k := g.Intn(t)
	for i, x := range w {
		if k < x {
			return i
		}
		k -= x
	}
	return len(w) - 1
}

// subset returns a seeded subset of 0..n-1 of the given size, ascending.
func (g *RNG) subset(n, size int) []int {
	if size > n {
		size = n
	}
	p := g.Perm(n)[:size]
	sort.Ints(p)
	return p
}

// ---------------------------------------------------------------- helpers

func sortedKeys[V any](m map[string]V) []string {
	ks := make([]string, 0, len(m))
	for k := range m {
		ks = append(ks, k)
	}
	sort.Strings(ks)
	return ks
}

func sha(b ...[]byte) string {
	h := sha256.New()
	for _, x := range b {
		var l [8]byte
		n := len(x)
		for i := 0; i < 8; i++ {
			l[i] = byte(n >> (8 * i))
		}
		h.Write(l[:])
		h.Write(x)
	}
	return hex.EncodeToString(h.Sum(nil))
}

func shortHash(s string) string { return sha([]byte(s))[:16] }

func mustJSON(v any) string {
	b, err := json.Marshal(v)
	if err != nil {
		panic(err)
	}
	return string(b)
}

func die(code int, format string, a ...any) {
	fmt.Fprintf(os.Stderr, "zsim: "+format+"\n", a...)
	os.Exit(code)
}

func envOr(k, d string) string {
	if v := os.Getenv(k); v != "" {
		return v
	}
	return d
}

func repoRoot() string  { return envOr("ZSIM_REPO", "/repo") }
func verifRoot() string { return envOr("ZSIM_VERIF", "/verif") }

func clip(s string, n int) string {
	if len(s) <= n {
		return s
	}
	return s[:n] + fmt.Sprintf("…(+%d)", len(s)-n)
}

// ---------------------------------------------------------------- event log

// EventLog is the recorded history of one run. Every line gets the global
// event sequence number; the trace hash is the hash of all lines.
type EventLog struct {
	lines []string
	keep  bool
	h     [32]byte
	n     int
}

func (l *EventLog) Add(format string, a ...any) int {
	s := fmt.Sprintf(format, a...)
	l.n++
	line := fmt.Sprintf("%06d %s", l.n, s)
	hh := sha256.New()
	hh.Write(l.h[:])
	hh.Write([]byte(line))
	copy(l.h[:], hh.Sum(nil))
	if l.keep {
		l.lines = append(l.lines, line)
	}
	return l.n
}
func (l *EventLog) Hash() string { return hex.EncodeToString(l.h[:8]) }
func (l *EventLog) Seq() int     { return l.n }

// ---------------------------------------------------------------- results

// Res is the canonical form of one lint result.
type Res struct {
	S int    `json:"s"`
	D string `json:"d,omitempty"`
}

// MarshalJSON keeps details byte-exact: text that is not valid UTF-8 travels as base64.
func (r Res) MarshalJSON() ([]byte, error) {
	if utf8.ValidString(r.D) {
		return json.Marshal(struct {
			S int    `json:"s"`
			D string `json:"d,omitempty"`
		}{r.S, r.D})
	}
	return json.Marshal(struct {
		S   int    `json:"s"`
		D64 []byte `json:"d64"`
	}{r.S, []byte(r.D)})
}

func (r *Res) UnmarshalJSON(b []byte) error {
	var x struct {
		S   int    `json:"s"`
		D   string `json:"d"`
		D64 []byte `json:"d64"`
	}
	if err := json.Unmarshal(b, &x); err != nil {
		return err
	}
	r.S, r.D = x.S, x.D
	if x.D64 != nil {
		r.D = string(x.D64)
	}
	return nil
}

func (r Res) String() string { return fmt.Sprintf("%s:%q", statusName(r.S), r.D) }

func statusName(s int) string {
	switch s {
	case 0:
		return "reserved"
	case 1:
		return "NA"
	case 2:
		return "NE"
	case 3:
		return "pass"
	case 4:
		return "info"
	case 5:
		return "warn"
	case 6:
		return "error"
	case 7:
		return "fatal"
	}
	return fmt.Sprintf("status(%d)", s)
}

// CanonSet is the canonical form of a ResultSet (Timestamp excluded).
type CanonSet struct {
	Nil     bool           `json:"nil,omitempty"`
	Version int64          `json:"version"`
	Flags   [4]bool        `json:"flags"` // notices, warnings, errors, fatals
	Results map[string]Res `json:"results"`
	Panic   string         `json:"panic,omitempty"` // a panic that reached the caller
	Hung    bool           `json:"hung,omitempty"`  // the call did not return (per-call watchdog)
}

func (c *CanonSet) hash() string {
	var sb strings.Builder
	fmt.Fprintf(&sb, "%v|%d|%v|%s|", c.Nil, c.Version, c.Flags, c.Panic)
	for _, k := range sortedKeys(c.Results) {
		r := c.Results[k]
		fmt.Fprintf(&sb, "%s=%d:%q;", k, r.S, r.D)
	}
	return shortHash(sb.String())
}

// ---------------------------------------------------------------- violations

type Violation struct {
	Property string `json:"property"`
	Class    string `json:"class"`
	Lint     string `json:"lint,omitempty"`
	Site     string `json:"site,omitempty"`
	Op       int    `json:"op"`
	Detail   string `json:"detail"`
	Expected string `json:"expected,omitempty"`
	Got      string `json:"got,omitempty"`
}

func (v Violation) Sig() string { return v.Property + "|" + v.Class + "|" + v.Lint + "|" + v.Site }

// RunResult is what one worker process reports on stdout.
type RunResult struct {
	Seed       uint64         `json:"seed"`
	Engine     string         `json:"engine"`
	Prop       string         `json:"prop"`
	TraceHash  string         `json:"trace_hash"`
	Steps      int            `json:"steps"`
	Ops        int            `json:"ops"`
	Checks     int            `json:"checks"`
	Counters   counters       `json:"counters"`
	Violations []Violation    `json:"violations,omitempty"`
	Distinct   map[string][]string `json:"distinct,omitempty"` // measure -> hashes seen
	Nontrivial int            `json:"nontrivial"`
	Sample     any            `json:"sample,omitempty"`
	Log        []string       `json:"log,omitempty"`
	Plan       *Plan          `json:"plan,omitempty"`
	HarnessErr string         `json:"harness_error,omitempty"`
}

type counters map[string]int

func (c counters) inc(k string)        { c[k]++ }
func (c counters) add(k string, n int) { c[k] += n }
