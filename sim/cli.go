package main

// CLI engine (DESIGN §4.6): the real zlint binary, one invocation per step,
// driven through the process boundary: argv, files, a stdin pipe written in a
// seeded chunk plan (each chunk is handed over only after the child consumed
// the previous one), stdout, exit status. Stream and selector faults are
// injected per step; the oracle is the in-process library on the bytes
// actually delivered.

import (
	"bytes"
	"context"
	"encoding/base64"
	"encoding/json"
	"encoding/pem"
	"fmt"
	"os"
	"os/exec"
	"path/filepath"
	"regexp"
	"sort"
	"strconv"
	"strings"
	"syscall"
	"time"
	"unsafe"

	zlint "github.com/zmap/zlint/v3"
	"github.com/zmap/zlint/v3/lint"
)

type CLIInput struct {
	Obj      int    `json:"obj"`
	Enc      string `json:"enc"`               // pem | der | base64
	Armor    string `json:"armor,omitempty"`   // PEM block type override
	Channel  string `json:"channel"`           // file | stdin | stdin-dash
	Suffix   string `json:"suffix,omitempty"`  // file name suffix
	Fault    string `json:"fault,omitempty"`   // truncate | empty | flip | garbage_prefix | garbage_suffix | missing | directory | newline_variants
	FaultArg int    `json:"fault_arg,omitempty"`
	Chunks   []int  `json:"chunks,omitempty"` // stdin chunk plan (cycled); empty = one shot
	StdinKind string `json:"stdin_kind,omitempty"` // "" = pipe written in chunks | file = a regular file opened as descriptor 0 | devnull = the null device (what cron, systemd and os/exec hand to a child by default)
}

type CLIStep struct {
	Inputs     []CLIInput  `json:"inputs"`
	Format     string      `json:"format,omitempty"` // value of -format ("" = flag absent)
	Sel        *FilterOpts `json:"sel,omitempty"`
	SelFault   string      `json:"sel_fault,omitempty"` // unknown_name | unknown_source | bad_regexp | namefilter_with_names | unknown_profile
	Pretty     bool        `json:"pretty,omitempty"`
	Summary    bool        `json:"summary,omitempty"`
	Long       bool        `json:"long,omitempty"`
	Cfg        int         `json:"cfg"`                  // -1: no -config
	CfgFault   string      `json:"cfg_fault,omitempty"`  // missing | truncated
	CfgFaultAt int         `json:"cfg_fault_at,omitempty"`
}

func (s CLIStep) summary() any { return s }

// ---------------------------------------------------------------- generation

// genCLITrunc: the truncation sweep. Run i of the batch takes object i/64 of a
// fixed list of corpus objects and cuts its PEM, DER and base64 encodings at
// every byte offset = i mod 64 (the writer "dies" after k bytes), alternately
// through a file and through stdin. Every cut must fail closed or - where the
// prefix still decodes (PEM with its END line cut is not such a case, DER with
// trailing bytes cut is not either) - agree with the library.
func genCLITrunc(seed uint64, prop, tier, mode string) *Plan {
	raw := 0
	if k := strings.Index(mode, ":"); k >= 0 {
		fmt.Sscanf(mode[k+1:], "%d", &raw)
	}
	slice, objNo := raw%64, raw/64
	g := newRNG(seed)
	p := &Plan{Engine: "cli", Prop: prop, Seed: seed, Tier: tier, Knobs: map[string]any{"worker_mode": mode, "object_no": objNo, "slice": slice}}
	idx := corpusIndex()
	var o *ObjSpec
	for t := 0; t < len(idx) && o == nil; t++ {
		o = loadCorpusFile(idx[(objNo*37+11+t)%len(idx)])
		if o != nil && o.Kind == KOCSP {
			o = nil
		}
	}
	if o == nil {
		die(2, "truncation sweep: no object")
	}
	p.Objects = []ObjSpec{*o}
	encs := []string{"pem", "der", "base64"}
	if o.Kind == KCRL {
		encs = []string{"pem"}
	}
	n := 0
	for _, enc := range encs {
		full := encodeObj(o, enc, "")
		for k := slice; k < len(full); k += 64 {
			st := CLIStep{Cfg: -1, Format: enc}
			in := CLIInput{Obj: 0, Enc: enc, Channel: "file", Fault: "truncate", FaultArg: k, Suffix: map[string]string{"pem": ".pem", "der": ".der", "base64": ".b64"}[enc]}
			if n%2 == 1 {
				in.Channel, in.Suffix = "stdin", ""
				if n%4 == 3 {
					in.Chunks = []int{g.Range(1, 700)}
				}
			}
			if n%7 == 0 {
				st.Summary = true
			}
			st.Inputs = []CLIInput{in}
			p.Steps = append(p.Steps, st)
			n++
		}
	}
	return p
}

func genCLI(seed uint64, prop, tier, mode string) *Plan {
	if strings.HasPrefix(mode, "truncsweep") {
		return genCLITrunc(seed, prop, tier, mode)
	}
	g := newRNG(seed)
	meta := readMetaTable()
	idx := corpusIndex()
	p := &Plan{Engine: "cli", Prop: prop, Seed: seed, Tier: tier, Knobs: map[string]any{}}
	faultFree := strings.Contains(mode, "nofault")
	if mode != "" {
		p.Knobs["worker_mode"] = mode
	}
	nObj := g.Range(2, 5)
	for i := 0; i < nObj; i++ {
		kind := KCert
		if g.Chance(0.25) {
			kind = KCRL
		}
		o := drawCorpusObject(g, idx, kind)
		if o == nil {
			o = drawCorpusObject(g, idx, KCert)
		}
		o = maybeSynth(g, idx, o, 0.2)
		if !faultFree && g.Chance(0.1) {
			if v := flipVariant(g, o); v != nil {
				o = v
			}
		}
		p.Objects = append(p.Objects, *o)
	}
	// siblings: a certificate and a near copy of it (a few bytes differ; issuer and serial number usually stay
	// the same, as for a precertificate and its final certificate) - linted in one invocation now and then
	sibA, sibB := -1, -1
	if g.Chance(0.4) {
		for i := range p.Objects {
			if p.Objects[i].Kind != KCert {
				continue
			}
			var v *ObjSpec
			if g.Chance(0.5) {
				v = flipVariant(g, &p.Objects[i])
			} else {
				v = tweakVariant(g, &p.Objects[i])
			}
			if v != nil && string(v.DER) != string(p.Objects[i].DER) {
				p.Objects = append(p.Objects, *v)
				sibA, sibB = i, len(p.Objects)-1
				nObj = len(p.Objects)
			}
			break
		}
	}
	// configurations for -config
	if g.Chance(0.5) {
		c := genCfg(g, meta, pick(g, []string{"option", "option", "neutral", "example", "illtyped", "illtyped"}))
		if c.Ill != "" && isProbeName(c.Ill) {
			c = genCfg(g, meta, "neutral")
		}
		// the CLI binary has no probe lints: keep real targets only
		ok := true
		for _, t := range c.Targets {
			if isProbeName(t) {
				ok = false
			}
		}
		if ok && tomlOK(c.Text) {
			p.Cfgs = append(p.Cfgs, c)
			// objects on which a named configurable lint gives a verdict
			aim := append([]string(nil), c.Targets...)
			if c.Ill != "" {
				aim = append(aim, c.Ill)
			}
			for _, t := range aim {
				t := t
				if o := pickClass(g, func(e *corpusClassEntry) bool { return inList(e.Conf, t) && e.Kind != KOCSP }); o != nil && g.Chance(0.7) {
					p.Objects = append(p.Objects, *o)
				}
			}
		}
	}
	realNames := func() []string {
		var out []string
		for _, n := range meta.Names {
			if !meta.ByName[n].Probe {
				out = append(out, n)
			}
		}
		return out
	}()
	realSources := func() []string {
		set := map[string]bool{}
		for _, n := range realNames {
			set[meta.ByName[n].Source] = true
		}
		return sortedKeys(set)
	}()
	nSteps := g.Range(4, 10)
	if tier == "thorough" {
		nSteps = g.Range(6, 16)
	}
	for si := 0; si < nSteps; si++ {
		st := CLIStep{Cfg: -1}
		// ---- output mode
		switch g.weighted([]int{50, 15, 15, 10, 5, 5}) {
		case 1:
			st.Pretty = true
		case 2:
			st.Summary = true
		case 3:
			st.Long = true
		case 4:
			st.Pretty, st.Summary = true, true
		case 5:
			st.Summary, st.Long = true, true
		}
		// ---- selection
		if g.Chance(0.65) {
			o := &FilterOpts{}
			// flags are drawn independently (a pattern excludes name lists)
			if g.Chance(0.25) {
				s := pick(g, []string{`^e_`, `^w_`, `_crl_`, `dnsname`, `^e_.*ca.*`, `san|ian`, `rsa`, `^n_`, `^e_sub_cert`, `.*`, `^$`, `crl_`, `ocsp`, `subject_common_name`, `_max_length$`})
				o.NameFilter = &s
			} else {
				if g.Chance(0.4) {
					for _, j := range g.subset(len(realNames), g.Range(1, 40)) {
						o.IncludeNames = append(o.IncludeNames, realNames[j])
					}
				}
				if g.Chance(0.35) {
					for _, j := range g.subset(len(realNames), g.Range(1, 8)) {
						o.ExcludeNames = append(o.ExcludeNames, realNames[j])
					}
					if len(o.IncludeNames) > 0 && g.Chance(0.5) {
						o.ExcludeNames = append(o.ExcludeNames, o.IncludeNames[0])
					}
				}
			}
			if g.Chance(0.3) {
				o.IncludeSources = []string{pick(g, realSources)}
				if g.Chance(0.4) {
					o.IncludeSources = append(o.IncludeSources, pick(g, realSources))
				}
			}
			if g.Chance(0.3) {
				o.ExcludeSources = []string{pick(g, realSources)}
				if g.Chance(0.4) {
					o.ExcludeSources = append(o.ExcludeSources, pick(g, realSources))
				}
			}
			if g.Chance(0.3) {
				for i := range o.IncludeNames {
					if g.Chance(0.4) {
						o.IncludeNames[i] = pick(g, []string{" ", "  "}) + o.IncludeNames[i] + pick(g, []string{"", " "})
					}
				}
			}
			st.Sel = o
		}
		if !faultFree && g.Chance(0.12) {
			if st.Sel == nil {
				st.Sel = &FilterOpts{}
			}
			st.SelFault = pick(g, []string{"unknown_name", "unknown_name_excluded", "unknown_source", "bad_regexp", "namefilter_with_names", "unknown_profile", "empty_name"})
			switch st.SelFault {
			case "empty_name":
				// an empty list element names no lint: "," / " " / "a,,b" / a trailing comma
				st.Sel.NameFilter = nil
				var list []string
				// (only lists that name nothing at all: a list with a stray comma next to real names is a spelling
				// a tolerant tool might accept, and the property does not decide that)
				switch g.Intn(3) {
				case 0:
					list = []string{"", ""}
				case 1:
					list = []string{" "}
				default:
					list = []string{" ", "", " "}
				}
				if g.Chance(0.6) {
					st.Sel.IncludeNames = list
				} else {
					st.Sel.ExcludeNames = list
				}
			case "unknown_name":
				st.Sel.NameFilter = nil
				st.Sel.IncludeNames = append(st.Sel.IncludeNames, pick(g, []string{"e_zsim_no_such_lint", "E_CA_IS_CA", "e_ca_is_c"}))
			case "unknown_name_excluded":
				st.Sel.NameFilter = nil
				st.Sel.ExcludeNames = append(st.Sel.ExcludeNames, "e_zsim_no_such_lint")
			case "unknown_source":
				bad := pick(g, []string{"NoSuchSource", "cabf_br", "RFC"})
				if g.Chance(0.5) {
					st.Sel.IncludeSources = append(st.Sel.IncludeSources, bad)
				} else {
					// among the excluded sources, first or last, next to a well-formed list of included ones or not
					if g.Chance(0.5) {
						st.Sel.ExcludeSources = append(st.Sel.ExcludeSources, bad)
					} else {
						st.Sel.ExcludeSources = append([]string{bad}, st.Sel.ExcludeSources...)
					}
					if len(st.Sel.IncludeSources) == 0 && g.Chance(0.6) {
						st.Sel.IncludeSources = []string{pick(g, realSources)}
					}
				}
			case "bad_regexp":
				s := pick(g, []string{`(`, `[a-`, `*x`, `(?P<n>`})
				st.Sel.NameFilter = &s
				st.Sel.IncludeNames, st.Sel.ExcludeNames = nil, nil
			case "namefilter_with_names":
				s := `^e_`
				st.Sel.NameFilter = &s
				st.Sel.IncludeNames = []string{pick(g, realNames)}
			}
		}
		// ---- configuration file
		if len(p.Cfgs) > 0 && g.Chance(0.4) {
			st.Cfg = 0
			if !faultFree && g.Chance(0.3) {
				if g.Chance(0.5) {
					st.CfgFault = "missing"
				} else if len(p.Cfgs[0].Text) > 0 {
					st.CfgFault = "truncated"
					st.CfgFaultAt = g.Intn(len(p.Cfgs[0].Text))
				}
			}
		} else if !faultFree && g.Chance(0.03) {
			st.Cfg, st.CfgFault = -2, "missing" // -config pointing nowhere, no configuration in the plan
		}
		// a step aimed at the interplay of -config and selection: the selection keeps a lint the
		// configuration names, the input is an object on which that lint has a verdict
		cfgAimed := -1
		if si == 1 && len(p.Cfgs) > 0 && (len(p.Cfgs[0].Targets) > 0 || p.Cfgs[0].Ill != "") {
			// (a section that cannot be applied makes exactly that lint fatal: a run whose only finding is a fatal one)
			T := p.Cfgs[0].Ill
			if T == "" || (len(p.Cfgs[0].Targets) > 0 && g.Chance(0.4)) {
				T = pick(g, p.Cfgs[0].Targets)
			}
			for oi := range p.Objects {
				if oi >= nObj { // appended by the configuration bias above
					cfgAimed = oi
				}
			}
			if cfgAimed >= 0 {
				st.Cfg, st.CfgFault, st.SelFault = 0, "", ""
				o := &FilterOpts{}
				switch g.Intn(3) {
				case 0:
					o.IncludeNames = []string{T}
					for _, j := range g.subset(len(realNames), g.Range(0, 10)) {
						o.IncludeNames = append(o.IncludeNames, realNames[j])
					}
				case 1:
					o.IncludeSources = []string{meta.ByName[T].Source}
				case 2:
					for _, j := range g.subset(len(realNames), g.Range(1, 5)) {
						if realNames[j] != T {
							o.ExcludeNames = append(o.ExcludeNames, realNames[j])
						}
					}
					if len(o.ExcludeNames) == 0 {
						o.IncludeNames = []string{T}
					}
				}
				st.Sel = o
				if p.Cfgs[0].Ill != "" && g.Chance(0.6) {
					switch g.Intn(3) {
					case 0:
						st.Summary, st.Long = true, false
					case 1:
						st.Summary, st.Long = false, true
					default:
						st.Summary, st.Long, st.Pretty = true, true, g.Chance(0.3)
					}
				}
			}
		}
		// ---- inputs
		stdin := g.Chance(0.35)
		nIn := 1
		if !stdin {
			nIn = 1 + g.weighted([]int{6, 3, 2, 1})
		}
		// one -format value per invocation: all neutral-suffix inputs share it
		enc := pick(g, []string{"pem", "pem", "der", "base64"})
		if enc != "pem" || g.Chance(0.3) {
			st.Format = enc
			if g.Chance(0.15) {
				st.Format = strings.ToUpper(enc)
			}
		}
		sibStep, sibSwap, sibAt := false, false, 0
		if sibA >= 0 && nIn >= 2 {
			sibStep, sibSwap, sibAt = g.Chance(0.5), g.Chance(0.5), g.Intn(nIn-1)
		}
		for k := 0; k < nIn; k++ {
			in := CLIInput{Obj: g.Intn(len(p.Objects)), Enc: enc, Channel: "file"}
			if cfgAimed >= 0 && k == 0 {
				in.Obj = cfgAimed
			}
			if sibA >= 0 && nIn >= 2 && cfgAimed < 0 && sibStep {
				// the two siblings next to each other, in either order
				switch k {
				case sibAt:
					in.Obj = sibA
				case sibAt + 1:
					in.Obj = sibB
				}
				if sibSwap && (k == sibAt || k == sibAt+1) {
					in.Obj = sibA + sibB - in.Obj
				}
			}
			if stdin {
				in.Channel = pick(g, []string{"stdin", "stdin-dash"})
				switch g.Intn(5) {
				case 0:
					in.Chunks = []int{1}
				case 1:
					in.Chunks = []int{g.Range(1, 9), g.Range(1, 200), g.Range(1, 4096)}
				case 2:
					in.Chunks = []int{512}
				case 3:
					in.Chunks = []int{g.Range(2, 64)}
				}
				// what descriptor 0 is: a pipe (default), a regular file, or the null device
				switch g.Intn(12) {
				case 0, 1:
					in.StdinKind, in.Chunks = "file", nil
				case 2:
					if !faultFree {
						in.StdinKind, in.Chunks = "devnull", nil
					}
				}
			} else {
				switch enc {
				case "pem":
					in.Suffix = pick(g, []string{".pem", ".pem", ".crt", "", ".txt"})
				case "der":
					in.Suffix = pick(g, []string{".der", ".der", ".cer", ".bin"})
				case "base64":
					in.Suffix = pick(g, []string{".b64", "", ".txt"})
				}
				// a file's suffix may state its own format (documented override of -format)
				if g.Chance(0.2) {
					e2 := pick(g, []string{"pem", "der"})
					in.Enc, in.Suffix = e2, "."+e2
				}
			}
			if p.Objects[in.Obj].Kind == KCRL && in.Enc != "pem" {
				// CRLs are promised via their PEM armor only; other encodings are rarely generated and only monitored
				if !g.Chance(0.15) || faultFree {
					for j := range p.Objects {
						if p.Objects[j].Kind == KCert {
							in.Obj = j
						}
					}
				}
			}
			if !faultFree && g.Chance(0.3) {
				in.Fault = pick(g, []string{"truncate", "truncate", "empty", "flip", "flip", "garbage_prefix", "garbage_suffix", "missing", "directory", "wrong_armor", "wrong_format", "suffix_lies"})
				switch in.Fault {
				case "truncate", "flip":
					in.FaultArg = g.Intn(1 << 20)
				case "wrong_armor":
					in.Enc = "pem"
					in.Armor = pick(g, []string{"X509 CRL", "CERTIFICATE", "CERTIFICATE REQUEST", "TRUSTED CERTIFICATE", "certificate"})
					if !stdin {
						in.Suffix = ".pem"
					}
				case "wrong_format":
					// the bytes are in another encoding than the one stated
					others := map[string][]string{"pem": {"der", "base64"}, "der": {"pem", "base64"}, "base64": {"pem", "der"}}
					in.Enc = pick(g, others[enc])
					if !stdin {
						in.Suffix = pick(g, []string{"", ".txt"})
					}
				case "suffix_lies":
					if !stdin {
						in.Enc = "pem"
						in.Suffix = ".der"
					} else {
						in.Fault = "empty"
					}
				case "missing", "directory":
					if stdin {
						in.Fault = "empty"
					}
				}
			}
			if in.StdinKind == "devnull" {
				in.Fault, in.FaultArg = "empty", 0 // nothing can be read from the null device
			}
			st.Inputs = append(st.Inputs, in)
		}
		p.Steps = append(p.Steps, st)
	}
	return p
}

// ---------------------------------------------------------------- bytes, decoders (harness side)

func encodeObj(o *ObjSpec, enc, armor string) []byte {
	switch enc {
	case "der":
		return append([]byte(nil), o.DER...)
	case "base64":
		return []byte(base64.StdEncoding.EncodeToString(o.DER) + "\n")
	}
	t := "CERTIFICATE"
	if o.Kind == KCRL {
		t = "X509 CRL"
	}
	if armor != "" {
		t = armor
	}
	return pem.EncodeToMemory(&pem.Block{Type: t, Bytes: o.DER})
}

func applyStreamFault(b []byte, in *CLIInput) []byte {
	switch in.Fault {
	case "truncate":
		if len(b) == 0 {
			return b
		}
		return b[:in.FaultArg%len(b)]
	case "empty":
		return nil
	case "flip":
		if len(b) == 0 {
			return b
		}
		c := append([]byte(nil), b...)
		c[in.FaultArg%len(c)] ^= byte(1 + (in.FaultArg>>8)%255)
		return c
	case "garbage_prefix":
		return append([]byte("zsim garbage\n"), b...)
	case "garbage_suffix":
		return append(append([]byte(nil), b...), []byte("\n!!zsim garbage!!")...)
	}
	return b
}

// decodeAs applies the public decoders the documentation names to the delivered
// bytes under the stated format; nil = the tool cannot decode or parse this.
func decodeAs(format string, b []byte) *ObjSpec {
	switch format {
	case "pem":
		blk, _ := pem.Decode(b)
		if blk == nil {
			return nil
		}
		switch blk.Type {
		case "CERTIFICATE":
			if _, err := parseObj(KCert, blk.Bytes); err == nil {
				return &ObjSpec{Kind: KCert, DER: blk.Bytes}
			}
		case "X509 CRL":
			if _, err := parseObj(KCRL, blk.Bytes); err == nil {
				return &ObjSpec{Kind: KCRL, DER: blk.Bytes}
			}
		}
		return nil
	case "der":
		if _, err := parseObj(KCert, b); err == nil {
			return &ObjSpec{Kind: KCert, DER: b}
		}
		return nil
	case "base64":
		d, err := base64.StdEncoding.DecodeString(string(b))
		if err != nil {
			return nil
		}
		if _, err := parseObj(KCert, d); err == nil {
			return &ObjSpec{Kind: KCert, DER: d}
		}
		return nil
	}
	return nil
}

// ---------------------------------------------------------------- the deterministic stdin transport

func fionread(fd uintptr) int {
	var n int32
	_, _, e := syscall.Syscall(syscall.SYS_IOCTL, fd, uintptr(0x541B), uintptr(unsafe.Pointer(&n)))
	if e != 0 {
		return -1
	}
	return int(n)
}

type cliOutcome struct {
	Exit     int
	Stdout   []byte
	Stderr   string
	TimedOut bool
	ChunksWritten int
}

const (
	cliHangLimit = 60 * time.Second
	cliMaxChunks = 4000
)

func zlintBinary() string { return filepath.Join(verifRoot(), "bin", "zlint") }

func runZlint(args []string, stdin []byte, chunks []int, useStdin bool, stdinKind string, dir string) cliOutcome {
	// bounded liveness: the tool must consume every chunk handed to it within cliHangLimit and must
	// exit within cliHangLimit once its input is closed; the time the harness itself needs to deliver
	// a long input in small chunks is not the tool's
	ctx, cancel := context.WithCancel(context.Background())
	defer cancel()
	timedOut := false
	cmd := exec.CommandContext(ctx, zlintBinary(), args...)
	cmd.Dir = dir
	cmd.Env = []string{"PATH=/usr/bin:/bin", "HOME=/nonexistent", "TZ=UTC"}
	var out, errb bytes.Buffer
	cmd.Stdout, cmd.Stderr = &out, &errb
	var w *os.File
	switch {
	case useStdin && stdinKind == "devnull":
		useStdin = false // os/exec hands the child the null device as descriptor 0
	case useStdin && stdinKind == "file":
		fp := filepath.Join(dir, "stdin-as-file")
		if err := os.WriteFile(fp, stdin, 0o644); err != nil {
			return cliOutcome{Exit: -1, Stderr: "stdin file: " + err.Error()}
		}
		f, err := os.Open(fp)
		if err != nil {
			return cliOutcome{Exit: -1, Stderr: "stdin file: " + err.Error()}
		}
		defer f.Close()
		cmd.Stdin = f
		useStdin = false
	}
	if useStdin {
		r, ww, err := os.Pipe()
		if err != nil {
			return cliOutcome{Exit: -1, Stderr: "pipe: " + err.Error()}
		}
		w = ww
		cmd.Stdin = r
		defer r.Close()
	}
	if err := cmd.Start(); err != nil {
		if w != nil {
			w.Close()
		}
		return cliOutcome{Exit: -1, Stderr: "start: " + err.Error()}
	}
	done := make(chan error, 1)
	go func() { done <- cmd.Wait() }()
	oc := cliOutcome{}
	var werr error
	exited := false
	if w != nil {
		if r, ok := cmd.Stdin.(*os.File); ok {
			r.Close() // the child holds its own copy
		}
		pos, ci := 0, 0
		// at most cliMaxChunks hand-overs per input: chunk sizes of a plan are scaled up for very long inputs
		scale := len(stdin)/cliMaxChunks + 1
		for pos < len(stdin) && !exited {
			n := len(stdin) - pos
			if len(chunks) > 0 {
				c := chunks[ci%len(chunks)] * scale
				ci++
				if c < n {
					n = c
				}
			}
			if _, err := w.Write(stdin[pos : pos+n]); err != nil {
				break // the child closed its end (it exited early): nothing more can be delivered
			}
			pos += n
			oc.ChunksWritten++
			// hand over the next chunk only once the child has consumed this one
			waitFrom := time.Now()
			for fionread(w.Fd()) > 0 {
				select {
				case werr = <-done:
					exited = true
				default:
					time.Sleep(20 * time.Microsecond)
				}
				if exited {
					break
				}
				if time.Since(waitFrom) > cliHangLimit {
					timedOut = true
					cancel()
					werr = <-done
					exited = true
				}
			}
		}
		w.Close()
	}
	if !exited {
		select {
		case werr = <-done:
		case <-time.After(cliHangLimit):
			timedOut = true
			cancel()
			werr = <-done
		}
	}
	oc.Stdout = out.Bytes()
	oc.Stderr = errb.String()
	if timedOut {
		oc.TimedOut = true
		oc.Exit = -2
		return oc
	}
	if werr != nil {
		if ee, ok := werr.(*exec.ExitError); ok {
			oc.Exit = ee.ExitCode()
		} else {
			oc.Exit = -1
			oc.Stderr += " wait: " + werr.Error()
		}
	}
	return oc
}

// ---------------------------------------------------------------- stdout parser

type cliResultObj map[string]struct {
	Result  string `json:"result"`
	Details string `json:"details"`
}

type cliTable struct {
	Long   bool
	Counts map[string]int
	Rows   map[string]int
}

type cliSegment struct {
	JSON  cliResultObj
	Table *cliTable
	Raw   string
}

var tableRow = regexp.MustCompile(`^\|\s*([^\s|]*)\s*\|\s*([^\s|]*)\s*\|(?:\s*(.*?)\s*\|)?\s*$`)

// parseStdout splits the tool's stdout into JSON result objects and summary tables, in order.
func parseStdout(b []byte) ([]cliSegment, error) {
	var segs []cliSegment
	i := 0
	for i < len(b) {
		c := b[i]
		switch {
		case c == ' ' || c == '\n' || c == '\r' || c == '\t':
			i++
		case c == '{':
			dec := json.NewDecoder(bytes.NewReader(b[i:]))
			var obj cliResultObj
			if err := dec.Decode(&obj); err != nil {
				return segs, fmt.Errorf("stdout holds a malformed JSON object at byte %d: %v", i, err)
			}
			if obj == nil {
				obj = cliResultObj{}
			}
			segs = append(segs, cliSegment{JSON: obj})
			i += int(dec.InputOffset())
		case c == '|':
			// a table: consecutive lines starting with | or +
			t := &cliTable{Counts: map[string]int{}, Rows: map[string]int{}}
			first := true
			cur := ""
			for i < len(b) && (b[i] == '|' || b[i] == '+') {
				j := bytes.IndexByte(b[i:], '\n')
				line := ""
				if j < 0 {
					line = string(b[i:])
					i = len(b)
				} else {
					line = string(b[i : i+j])
					i += j + 1
				}
				if first {
					first = false
					t.Long = strings.Contains(line, "DETAILS")
					if !strings.Contains(line, "LEVEL") {
						return segs, fmt.Errorf("table without a heading: %q", line)
					}
					continue
				}
				if strings.HasPrefix(line, "+") {
					continue
				}
				m := tableRow.FindStringSubmatch(line)
				if m == nil {
					return segs, fmt.Errorf("unparseable table row %q", line)
				}
				if m[1] != "" {
					cur = m[1]
					n, err := strconv.Atoi(m[2])
					if err != nil {
						return segs, fmt.Errorf("table row without a count: %q", line)
					}
					t.Counts[cur] = n
				}
				if t.Long && m[3] != "-" && m[3] != "" {
					t.Rows[cur]++
				}
			}
			segs = append(segs, cliSegment{Table: t})
		case c == 'n' && bytes.HasPrefix(b[i:], []byte("null")):
			segs = append(segs, cliSegment{Raw: "null"})
			i += 4
		default:
			j := bytes.IndexByte(b[i:], '\n')
			if j < 0 {
				j = len(b) - i
			}
			return segs, fmt.Errorf("unexpected text on stdout at byte %d: %q", i, clip(string(b[i:i+j]), 120))
		}
	}
	return segs, nil
}

// ---------------------------------------------------------------- library side

// libraryResult lints the object with the harness's in-process library under
// the same selection and configuration; probe lints are removed.
func libraryResult(o *ObjSpec, sel *FilterOpts, cfgText string, hasCfg bool) (map[string]Res, error) {
	g := lint.GlobalRegistry()
	reg := lint.Registry(g)
	cfg := lint.NewEmptyConfig()
	if hasCfg {
		c, err := lint.NewConfigFromString(cfgText)
		if err != nil {
			return nil, fmt.Errorf("configuration: %v", err)
		}
		cfg = c
	}
	g.SetConfiguration(cfg)
	defer g.SetConfiguration(lint.NewEmptyConfig())
	if sel != nil && !sel.empty() {
		fo, err := sel.real()
		if err != nil {
			return nil, err
		}
		r, err := g.Filter(fo)
		if err != nil {
			return nil, err
		}
		reg = r
	}
	p, err := parseObj(o.Kind, o.DER)
	if err != nil {
		return nil, err
	}
	var rs *zlint.ResultSet
	switch o.Kind {
	case KCert:
		rs = zlint.LintCertificateEx(p.Cert, reg)
	case KCRL:
		rs = zlint.LintRevocationListEx(p.CRL, reg)
	}
	out := map[string]Res{}
	for n, r := range rs.Results {
		if isProbeName(n) {
			continue
		}
		out[n] = Res{S: int(r.Status), D: r.Details}
	}
	return out, nil
}

var statusByLabel = map[string]int{"reserved": 0, "NA": 1, "NE": 2, "pass": 3, "info": 4, "warn": 5, "error": 6, "fatal": 7}

// ---------------------------------------------------------------- execution

func cliArgs(st *CLIStep, cfgPath string, paths []string) []string {
	var a []string
	if st.Format != "" {
		a = append(a, "-format", st.Format)
	}
	if st.Pretty {
		a = append(a, "-pretty")
	}
	if st.Summary {
		a = append(a, "-summary")
	}
	if st.Long {
		a = append(a, "-longSummary")
	}
	if st.Sel != nil {
		if st.Sel.NameFilter != nil {
			a = append(a, "-nameFilter", *st.Sel.NameFilter)
		}
		if len(st.Sel.IncludeNames) > 0 {
			a = append(a, "-includeNames", strings.Join(st.Sel.IncludeNames, ","))
		}
		if len(st.Sel.ExcludeNames) > 0 {
			a = append(a, "-excludeNames", strings.Join(st.Sel.ExcludeNames, ","))
		}
		if len(st.Sel.IncludeSources) > 0 {
			a = append(a, "-includeSources", strings.Join(st.Sel.IncludeSources, ","))
		}
		if len(st.Sel.ExcludeSources) > 0 {
			a = append(a, "-excludeSources", strings.Join(st.Sel.ExcludeSources, ","))
		}
	}
	if st.SelFault == "unknown_profile" {
		a = append(a, "-profile", "zsim_no_such_profile")
	}
	if cfgPath != "" {
		a = append(a, "-config", cfgPath)
	}
	return append(a, paths...)
}

func runCLI(p *Plan, keepLog bool) *RunResult {
	log := &EventLog{keep: keepLog}
	log.Add("seed=%d engine=cli prop=%s", p.Seed, p.Prop)
	res := &RunResult{Seed: p.Seed, Engine: "cli", Prop: p.Prop, Counters: counters{}, Distinct: map[string][]string{}}
	distinct := map[string]bool{}
	nontriv := map[string]bool{}
	curScript = nil
	dir := filepath.Join(verifRoot(), "work", "tmp", fmt.Sprintf("cli%d", os.Getpid()))
	os.MkdirAll(dir, 0o755)
	defer os.RemoveAll(dir)
	violate := func(v Violation) {
		v.Property = "C15"
		res.Violations = append(res.Violations, v)
		log.Add("VIOLATION C15 %s step=%d %s", v.Class, v.Op, clip(v.Detail, 200))
	}
	// the same object must give the same results whatever encoding / channel it arrived through
	seenObj := map[string]string{}

	for si := range p.Steps {
		st := &p.Steps[si]
		sdir := filepath.Join(dir, fmt.Sprintf("s%d", si))
		os.MkdirAll(sdir, 0o755)
		// ---- configuration file
		cfgPath, cfgText, hasCfg, cfgBroken := "", "", false, false
		if st.Cfg >= 0 && st.Cfg < len(p.Cfgs) {
			cfgText = p.Cfgs[st.Cfg].Text
			cfgPath = filepath.Join(sdir, "config.toml")
			switch st.CfgFault {
			case "missing":
				cfgPath = filepath.Join(sdir, "no-such-config.toml")
				cfgBroken = true
			case "truncated":
				cfgText = cfgText[:st.CfgFaultAt%len(cfgText)]
				os.WriteFile(cfgPath, []byte(cfgText), 0o644)
				if !tomlOK(cfgText) {
					cfgBroken = true
				}
			default:
				os.WriteFile(cfgPath, []byte(cfgText), 0o644)
			}
			hasCfg = !cfgBroken
			if st.CfgFault != "" {
				res.Counters.inc("cli_fault/config_" + st.CfgFault)
			}
		} else if st.Cfg == -2 {
			cfgPath = filepath.Join(sdir, "no-such-config.toml")
			cfgBroken = true
			res.Counters.inc("cli_fault/config_missing")
		}
		// ---- inputs
		type prepared struct {
			in       *CLIInput
			bytes    []byte
			stated   string // format the tool is told (suffix override, then -format, then pem)
			class    string // ok | bad | either
			obj      *ObjSpec
			faulted  bool
		}
		var preps []prepared
		var paths []string
		var stdinBytes []byte
		var stdinChunks []int
		useStdin := false
		stdinKind := ""
		for k := range st.Inputs {
			in := &st.Inputs[k]
			o := &p.Objects[in.Obj]
			raw := encodeObj(o, in.Enc, in.Armor)
			b := applyStreamFault(raw, in)
			pr := prepared{in: in, bytes: b}
			pr.faulted = in.Fault != "" && (!bytes.Equal(b, raw) || in.Fault == "missing" || in.Fault == "directory" || in.Fault == "wrong_armor" || in.Fault == "wrong_format" || in.Fault == "suffix_lies")
			stated := strings.ToLower(st.Format)
			if stated == "" {
				stated = "pem"
			}
			ambiguous := false
			if in.Channel == "file" {
				switch {
				case strings.HasSuffix(in.Suffix, ".der"):
					if stated != "der" && st.Format != "" {
						ambiguous = true
					}
					if in.Fault == "suffix_lies" {
						ambiguous = true
					}
					stated = "der"
				case strings.HasSuffix(in.Suffix, ".pem"):
					if stated != "pem" {
						ambiguous = true
					}
					stated = "pem"
				}
			}
			pr.stated = stated
			switch {
			case in.Fault == "missing" || in.Fault == "directory":
				pr.class = "bad"
			default:
				pr.obj = decodeAs(stated, b)
				if pr.obj != nil {
					pr.class = "ok"
				} else {
					pr.class = "bad"
				}
				// classifications the property does not fix: judged only as "exit 0 => equals the library"
				if ambiguous {
					pr.class = "either"
				}
				if in.Armor != "" && in.Armor != "CERTIFICATE" && in.Armor != "X509 CRL" {
					pr.class = "either"
				}
				if o.Kind == KCRL && in.Enc != "pem" {
					pr.class = "either"
				}
				if stated == "base64" && pr.obj == nil {
					// base64 text with blanks / partial padding: decoders differ in leniency
					if d := bytes.TrimSpace(b); len(d) != len(b) && len(d) > 0 {
						if _, err := base64.StdEncoding.DecodeString(string(d)); err == nil {
							pr.class = "either"
						}
					}
				}
				if pr.class == "either" && pr.obj == nil {
					for _, f := range []string{"pem", "der", "base64"} {
						if x := decodeAs(f, b); x != nil {
							pr.obj = x
							break
						}
					}
				}
			}
			switch in.Channel {
			case "file":
				path := filepath.Join(sdir, fmt.Sprintf("in%d%s", k, in.Suffix))
				switch in.Fault {
				case "missing":
				case "directory":
					os.MkdirAll(path, 0o755)
				default:
					os.WriteFile(path, b, 0o644)
				}
				paths = append(paths, path)
			case "stdin", "stdin-dash":
				useStdin = true
				stdinBytes = b
				stdinChunks = in.Chunks
				stdinKind = in.StdinKind
				if in.StdinKind != "" {
					res.Counters.inc("stdin_kind/" + in.StdinKind)
				}
				if in.Channel == "stdin-dash" {
					paths = append(paths, "-")
				}
				if len(in.Chunks) == 1 && in.Chunks[0] == 1 {
					res.Counters.inc("stdin_1byte_chunks")
				}
			}
			if pr.faulted {
				res.Counters.inc("cli_fault/" + in.Fault)
			}
			preps = append(preps, pr)
		}
		if st.SelFault != "" {
			res.Counters.inc("cli_fault/sel_" + st.SelFault)
		}
		args := cliArgs(st, cfgPath, paths)
		oc := runZlint(args, stdinBytes, stdinChunks, useStdin, stdinKind, sdir)
		res.Ops++
		res.Steps += 1 + oc.ChunksWritten
		res.Counters.add("stdin_chunks_delivered", oc.ChunksWritten)
		log.Add("step %d args=%s stdin=%v -> exit=%d stdout=%s", si, shortHash(strings.Join(stripDir(args, sdir), " ")), useStdin, oc.Exit, canonStdout(oc.Stdout))
		if oc.TimedOut {
			violate(Violation{Class: "hang", Op: si, Detail: "the tool did not exit within 60 s after its input was closed: zlint " + strings.Join(stripDir(args, sdir), " ")})
			continue
		}
		if oc.Exit == -1 {
			res.HarnessErr = "cannot run the zlint binary: " + oc.Stderr
			break
		}
		segs, perr := parseStdout(oc.Stdout)
		nJSON := 0
		for _, s := range segs {
			if s.JSON != nil {
				nJSON++
			}
		}
		cmdline := "zlint " + strings.Join(stripDir(args, sdir), " ")
		outcome := "ok"
		// ---- selector / configuration faults: fail closed, no result object at all
		if st.SelFault != "" || cfgBroken {
			res.Checks++
			outcome = "selector_fault"
			cause := st.SelFault
			if cause == "" {
				cause = "config"
			}
			if oc.Exit == 0 || len(segs) > 0 || perr != nil {
				violate(Violation{Class: "not_fail_closed", Op: si, Site: "selector/" + cause,
					Detail: fmt.Sprintf("with an unusable selector or configuration (%s) the tool must exit non-zero without printing a result; exit=%d, %d objects/tables on stdout: %s", cause, oc.Exit, len(segs), cmdline), Got: clip(string(oc.Stdout), 200)})
			} else {
				res.Counters.inc("cli_fail_closed/" + cause)
			}
			distinct[fmt.Sprintf("sel|%s", cause)] = true
			nontriv[fmt.Sprintf("%d|%d", p.Seed, si)] = true
			continue
		}
		// ---- expected number of accepted inputs before the first bad one
		firstBad := -1
		either := false
		for k, pr := range preps {
			if pr.class == "bad" {
				firstBad = k
				break
			}
			if pr.class == "either" {
				either = true
				break
			}
		}
		perInput := 0
		if st.Pretty {
			perInput++
		}
		if st.Summary {
			perInput++
		}
		if st.Long {
			perInput++
		}
		if perInput == 0 {
			perInput = 1
		}
		if perr != nil {
			violate(Violation{Class: "stdout_malformed", Op: si, Detail: perr.Error() + ": " + cmdline})
			continue
		}
		nGood := len(preps)
		if firstBad >= 0 {
			nGood = firstBad
		}
		if either {
			// judge only the prefix before the ambiguous input, and "exit 0 => everything printed equals the library"
			k := 0
			for k < len(preps) && preps[k].class == "ok" {
				k++
			}
			nGood = k
		}
		res.Checks++
		if !either {
			if firstBad >= 0 {
				outcome = "bad_input"
				cause := preps[firstBad].in.Fault
				if cause == "" {
					cause = "undecodable"
				}
				if oc.Exit == 0 {
					violate(Violation{Class: "not_fail_closed", Op: si, Site: "input/" + cause,
						Detail: fmt.Sprintf("input %d cannot be decoded or parsed as %s (%s) but the tool exited 0: %s", firstBad, preps[firstBad].stated, cause, cmdline), Got: clip(string(oc.Stdout), 200)})
					continue
				}
				if len(segs) != nGood*perInput {
					violate(Violation{Class: "result_for_bad_input", Op: si, Site: "input/" + cause,
						Detail: fmt.Sprintf("input %d of %d cannot be decoded or parsed (%s): stdout must carry results for the %d inputs before it only, found %d objects/tables: %s", firstBad, len(preps), cause, nGood, len(segs), cmdline), Got: clip(string(oc.Stdout), 200)})
					continue
				}
				res.Counters.inc("cli_fail_closed/" + cause)
			} else {
				if oc.Exit != 0 {
					violate(Violation{Class: "good_input_rejected", Op: si,
						Detail: fmt.Sprintf("every input is decodable and parseable under its stated format but the tool exited %d: %s; stderr: %s", oc.Exit, cmdline, clip(oc.Stderr, 300))})
					continue
				}
				if len(segs) != nGood*perInput {
					violate(Violation{Class: "result_count", Op: si,
						Detail: fmt.Sprintf("%d inputs, expected %d result objects/tables on stdout, found %d: %s", len(preps), nGood*perInput, len(segs), cmdline)})
					continue
				}
			}
		} else {
			outcome = "unfixed_classification"
			if len(segs) < nGood*perInput {
				violate(Violation{Class: "result_count", Op: si,
					Detail: fmt.Sprintf("expected at least %d result objects/tables for the acceptable inputs before the ambiguous one, found %d: %s", nGood*perInput, len(segs), cmdline)})
				continue
			}
			if oc.Exit == 0 && len(segs) != len(preps)*perInput {
				violate(Violation{Class: "result_count", Op: si,
					Detail: fmt.Sprintf("exit 0 with %d inputs but %d result objects/tables: %s", len(preps), len(segs), cmdline)})
				continue
			}
		}
		// ---- compare what was printed with the library, input by input
		nJudge := len(segs) / perInput
		for k := 0; k < nJudge && k < len(preps); k++ {
			pr := preps[k]
			if pr.obj == nil {
				if oc.Exit == 0 {
					violate(Violation{Class: "result_for_bad_input", Op: si, Site: "input/" + pr.in.Fault,
						Detail: fmt.Sprintf("a result was printed for input %d, from whose bytes no certificate or CRL can be obtained: %s", k, cmdline)})
				}
				break
			}
			lib, lerr := libraryResult(pr.obj, st.Sel, cfgText, hasCfg)
			if lerr != nil {
				res.HarnessErr = fmt.Sprintf("library side failed for step %d: %v", si, lerr)
				break
			}
			counts := map[string]int{"info": 0, "warn": 0, "error": 0, "fatal": 0}
			for _, r := range lib {
				switch r.S {
				case 4:
					counts["info"]++
				case 5:
					counts["warn"]++
				case 6:
					counts["error"]++
				case 7:
					counts["fatal"]++
				}
			}
			part := segs[k*perInput : (k+1)*perInput]
			pi := 0
			expectJSON := st.Pretty || (!st.Summary && !st.Long)
			if expectJSON {
				s := part[pi]
				pi++
				res.Checks++
				if s.JSON == nil {
					violate(Violation{Class: "output_shape", Op: si, Detail: fmt.Sprintf("input %d: expected a JSON result object first: %s", k, cmdline)})
					continue
				}
				if msg, ln := diffCLI(lib, s.JSON); msg != "" {
					violate(Violation{Class: "result_differs_from_library", Op: si, Lint: ln, Site: pr.in.Enc + "/" + pr.in.Channel,
						Detail: fmt.Sprintf("input %d (%s via %s): the printed results differ from the library's with the same selection: %s: %s", k, pr.in.Enc, pr.in.Channel, msg, cmdline)})
				}
				// identical across encodings / channels for the same object and selection
				key := sha(pr.obj.DER) + "|" + mustJSON(st.Sel) + "|" + shortHash(cfgText) + fmt.Sprint(hasCfg)
				h := canonCLI(s.JSON)
				if prev, ok := seenObj[key]; ok && prev != h {
					violate(Violation{Class: "encoding_dependent", Op: si, Site: pr.in.Enc + "/" + pr.in.Channel,
						Detail: "the same object with the same selection printed different results when it arrived in another encoding / through another channel: " + cmdline})
				}
				seenObj[key] = h
			}
			for _, long := range []bool{false, true} {
				if (long && !st.Long) || (!long && !st.Summary) {
					continue
				}
				if pi >= len(part) {
					break
				}
				s := part[pi]
				pi++
				res.Checks++
				if s.Table == nil || s.Table.Long != long {
					violate(Violation{Class: "output_shape", Op: si, Detail: fmt.Sprintf("input %d: expected a %s summary table: %s", k, map[bool]string{false: "short", true: "long"}[long], cmdline)})
					continue
				}
				for _, lvl := range []string{"info", "warn", "error", "fatal"} {
					got, ok := s.Table.Counts[lvl]
					if !ok || got != counts[lvl] {
						violate(Violation{Class: "summary_count", Op: si, Site: lvl,
							Detail:   fmt.Sprintf("input %d: the summary table's count for %q is not the number of such results: %s", k, lvl, cmdline),
							Expected: fmt.Sprint(counts[lvl]), Got: fmt.Sprint(got, " present=", ok)})
					}
				}
				for lvl := range s.Table.Counts {
					if _, ok := counts[lvl]; !ok {
						violate(Violation{Class: "summary_count", Op: si, Site: lvl, Detail: fmt.Sprintf("input %d: the summary table counts level %q, which is not above pass: %s", k, lvl, cmdline)})
					}
				}
			}
			if pr.class == "ok" {
				res.Counters.inc("cli_input_compared")
			}
		}
		// ---- measures
		for _, pr := range preps {
			f := pr.in.Fault
			if !pr.faulted {
				f = ""
			}
			distinct[fmt.Sprintf("%s|%s|%s|%s|sel=%v|%s", pr.in.Enc, pr.in.Channel, f, pr.class, st.Sel != nil, outcome)] = true
			if pr.faulted || len(preps) > 1 {
				nontriv[fmt.Sprintf("%d|%d", p.Seed, si)] = true
			}
		}
	}
	res.Distinct["cli_tuples"] = sortedKeys(distinct)
	res.Distinct["nontrivial"] = sortedKeys(nontriv)
	res.Nontrivial = len(nontriv)
	res.TraceHash = log.Hash()
	if keepLog {
		res.Log = log.lines
	}
	return res
}

// canonStdout is what the event log records of a step's stdout: the parsed
// result objects and table counts (the row order of the long table follows Go
// map iteration in the tool and is not part of any property).
func canonStdout(b []byte) string {
	segs, err := parseStdout(b)
	if err != nil {
		return "raw:" + shortHash(string(b))
	}
	var sb strings.Builder
	for _, s := range segs {
		switch {
		case s.JSON != nil:
			sb.WriteString("J" + canonCLI(s.JSON))
		case s.Table != nil:
			fmt.Fprintf(&sb, "T%v", s.Table.Long)
			for _, k := range sortedKeys(s.Table.Counts) {
				fmt.Fprintf(&sb, "%s=%d/%d,", k, s.Table.Counts[k], s.Table.Rows[k])
			}
		default:
			sb.WriteString("R" + s.Raw)
		}
		sb.WriteString(";")
	}
	return shortHash(sb.String())
}

func stripDir(args []string, dir string) []string {
	out := make([]string, len(args))
	for i, a := range args {
		out[i] = strings.Replace(a, dir+"/", "", 1)
	}
	return out
}

func canonCLI(o cliResultObj) string {
	var sb strings.Builder
	keys := make([]string, 0, len(o))
	for k := range o {
		keys = append(keys, k)
	}
	sort.Strings(keys)
	for _, k := range keys {
		fmt.Fprintf(&sb, "%s=%s:%q;", k, o[k].Result, o[k].Details)
	}
	return shortHash(sb.String())
}

// diffCLI compares the library's results with a printed result object.
func diffCLI(lib map[string]Res, got cliResultObj) (string, string) {
	for _, n := range sortedKeys(lib) {
		g, ok := got[n]
		if !ok {
			return fmt.Sprintf("lint %s is missing from the output", n), n
		}
		s, known := statusByLabel[g.Result]
		if !known || s != lib[n].S {
			return fmt.Sprintf("lint %s: library says %s, the tool printed %q", n, statusName(lib[n].S), g.Result), n
		}
		// JSON encoding replaces invalid UTF-8; compare after the same normalisation
		wantD, _ := json.Marshal(lib[n].D)
		var wd string
		json.Unmarshal(wantD, &wd)
		if g.Details != wd {
			return fmt.Sprintf("lint %s: details differ: library %q, tool %q", n, clip(wd, 120), clip(g.Details, 120)), n
		}
	}
	keys := make([]string, 0, len(got))
	for k := range got {
		keys = append(keys, k)
	}
	sort.Strings(keys)
	for _, n := range keys {
		if _, ok := lib[n]; !ok {
			return fmt.Sprintf("the tool printed a result for %s, which the selection does not contain", n), n
		}
	}
	return "", ""
}

// ---------------------------------------------------------------- minimisation

func minimiseCLI(p *Plan, test func(*Plan) bool, deadline time.Time) *Plan {
	cur := p.clone()
	if !test(cur) {
		return nil
	}
	// one step is enough for every violation class except encoding_dependent
	for i := len(cur.Steps) - 1; i >= 0 && time.Now().Before(deadline); i-- {
		if len(cur.Steps) == 1 {
			break
		}
		cand := cur.clone()
		cand.Steps = append(append([]CLIStep{}, cur.Steps[:i]...), cur.Steps[i+1:]...)
		if test(cand) {
			cur = cand
		}
	}
	for si := range cur.Steps {
		// fewer inputs
		for k := len(cur.Steps[si].Inputs) - 1; k >= 0 && time.Now().Before(deadline); k-- {
			if len(cur.Steps[si].Inputs) == 1 {
				break
			}
			cand := cur.clone()
			in := cand.Steps[si].Inputs
			cand.Steps[si].Inputs = append(append([]CLIInput{}, in[:k]...), in[k+1:]...)
			if test(cand) {
				cur = cand
			}
		}
		// simpler flags
		for _, f := range []func(*CLIStep){
			func(s *CLIStep) { s.Sel = nil },
			func(s *CLIStep) { s.Cfg, s.CfgFault = -1, "" },
			func(s *CLIStep) { s.Pretty = false },
			func(s *CLIStep) { s.Long = false },
			func(s *CLIStep) { s.Summary = false },
			func(s *CLIStep) {
				for k := range s.Inputs {
					s.Inputs[k].Chunks = nil
				}
			},
		} {
			if time.Now().After(deadline) {
				break
			}
			cand := cur.clone()
			f(&cand.Steps[si])
			if test(cand) {
				cur = cand
			}
		}
	}
	if !test(cur) {
		return nil
	}
	return cur
}
