package main

// SCHED engine (DESIGN §4.1): K simulated clients (real goroutines) run seeded
// op lists against shared registries. Exactly one client holds the baton; at
// every yield site (inserted by registry-wrapper shells around the real lint
// constructor, Configure, CheckApplies, Execute and around registry reads) the
// schedule decides whether the baton moves. The oracle is the serial twin: the
// same op lists executed client after client in a fresh process.
//
// Modes: "" baton-scheduled; "serial" the twin; "free" no wrappers, clients
// free-running (used under the race detector).

import (
	"bytes"
	"fmt"
	"io"
	"os"
	"runtime"
	"os/exec"
	"path/filepath"
	"sort"
	"strings"
	"sync"
	"sync/atomic"
	"time"

	"github.com/zmap/zcrypto/x509"
	zlint "github.com/zmap/zlint/v3"
	"github.com/zmap/zlint/v3/lint"
	"golang.org/x/crypto/ocsp"
)

type Switch struct {
	C  int `json:"c"`
	K  int `json:"k"` // the C's K-th yield; -1: when C finished
	To int `json:"to"`
}

type Schedule struct {
	Strategy string   `json:"strategy"` // rr | bernoulli | pct | targeted | explicit
	P        float64  `json:"p,omitempty"`
	Depth    int      `json:"depth,omitempty"`
	Seed     uint64   `json:"seed,omitempty"`
	Target   string   `json:"target,omitempty"` // yield site for "targeted", e.g. exec:e_some_lint
	Horizon  int      `json:"horizon,omitempty"`
	Explicit []Switch `json:"explicit,omitempty"`
	Stmt     bool     `json:"stmt,omitempty"` // fine-grain build: the statement sites of rule bodies and helpers are yield sites too
}

func (s *Schedule) summary() any {
	if s == nil {
		return nil
	}
	m := map[string]any{"strategy": s.Strategy, "p": s.P, "depth": s.Depth, "target": s.Target, "explicit_switches": len(s.Explicit), "statement_grain": s.Stmt}
	if len(s.Explicit) > 0 {
		e := s.Explicit
		if len(e) > 12 {
			e = e[:12]
		}
		m["explicit_first"] = e
	}
	return m
}

// ---------------------------------------------------------------- the baton scheduler

type sched struct {
	n       int
	wake    []chan struct{}
	done    []bool
	yields  []int
	parked  []string // site at which each client is parked
	inLint  []bool
	cur     int
	sc      *Schedule
	rng     *RNG
	pct     map[int]bool
	ei      int
	trace   []Switch
	steps   int64
	free    int32
	allDone chan struct{}
	log     *EventLog
	mu      sync.Mutex
	pairs   map[string]bool
	insideSwitch int
	switches     int
	rrNext  int
	maxSteps      int64 // fine-grain runs: scheduler steps after which the clients are released
	budgetHit     bool
	gids          []uintptr // goroutine of each client
	foreignYields int64
	opsDone []int64 // ops completed per client (free-running stalls wait on the others' progress)
	stalled int32   // clients currently inside a stalled caller-supplied writer
	stallViolation string
}

// curSched is the scheduler of this process's run (one run per process).
var curSched *sched

// stall: client c is inside a writer it handed to the registry (WriteJSON) and that writer does not
// take the bytes for a while - a slow consumer, a full pipe. The other clients must be able to go on
// reading the registry meanwhile. Baton mode: a series of forced hand-overs at "writer:" sites; if the
// client that got the baton then blocks on a lock of the registry, no scheduler step happens any more
// and the progress watchdog reports it. Free-running mode: wait until the other clients have completed
// a few operations; if none of them makes any progress for 10 s while one of them sits in a lock of
// the registry code, that is the same finding.
// schedSharedOpts: filter option values built once, before the clients start, and used by all of them.
var schedSharedOpts map[string]*lint.FilterOptions

var stallCount int64

func (s *sched) stall(c int) {
	atomic.AddInt64(&stallCount, 1)
	atomic.AddInt32(&s.stalled, 1)
	defer atomic.AddInt32(&s.stalled, -1)
	if atomic.LoadInt32(&s.free) == 0 {
		for i := 0; i < 2*s.n && atomic.LoadInt32(&s.free) == 0; i++ {
			s.Yield(c, "writer:stall")
		}
		return
	}
	progress := func() (sum int64, left int) {
		s.mu.Lock()
		defer s.mu.Unlock()
		for j := 0; j < s.n; j++ {
			if j == c {
				continue
			}
			sum += atomic.LoadInt64(&s.opsDone[j])
			if !s.done[j] {
				left++
			}
		}
		return
	}
	base, left := progress()
	need := int64(left)
	t0 := time.Now()
	for {
		cur, l := progress()
		if l == 0 || cur-base >= need {
			return
		}
		if time.Since(t0) > 30*time.Second {
			if cur == base {
				if site := zlintLockBlocked(); site != "" {
					s.mu.Lock()
					s.stallViolation = site
					s.mu.Unlock()
				}
			}
			return
		}
		time.Sleep(200 * time.Microsecond)
	}
}

// zlintLockBlocked: is some goroutine waiting for a lock inside zlint's registry code? Returns the
// first zlint frame of that goroutine, or "".
func zlintLockBlocked() string {
	buf := make([]byte, 4<<20)
	n := runtime.Stack(buf, true)
	for _, g := range strings.Split(string(buf[:n]), "\n\n") {
		hdr := g
		if i := strings.Index(g, "\n"); i > 0 {
			hdr = g[:i]
		}
		if !(strings.Contains(hdr, "sync.Mutex.Lock") || strings.Contains(hdr, "sync.RWMutex.") || strings.Contains(hdr, "semacquire")) {
			continue
		}
		// the lock must be one that zlint's registry code itself is taking: the first frame below those of
		// sync / runtime is zlint's (a harness lock taken further up the same stack - the stalled writer's own
		// bookkeeping sits above WriteJSON - is not that)
		for _, ln := range strings.Split(g, "\n")[1:] {
			if strings.HasPrefix(ln, "\t") || ln == "" {
				continue
			}
			if strings.HasPrefix(ln, "sync.") || strings.HasPrefix(ln, "runtime.") || strings.HasPrefix(ln, "internal/") || strings.HasPrefix(ln, "sync/") {
				continue
			}
			if i := strings.Index(ln, "github.com/zmap/zlint/v3/lint."); i == 0 {
				f := ln[len("github.com/zmap/zlint/v3/"):]
				if j := strings.LastIndex(f, "("); j > 0 {
					f = f[:j]
				}
				return f
			}
			break
		}
	}
	return ""
}

// stallWriter is the writer a client hands to WriteJSON when its op says so: it stalls at the first
// and at the 20th write.
type stallWriter struct {
	sb strings.Builder
	c  int
	n  int
}

func (w *stallWriter) Write(p []byte) (int, error) {
	w.n++
	if (w.n == 1 || w.n == 20) && curSched != nil {
		curSched.stall(w.c)
	}
	return w.sb.Write(p)
}

func newSched(n int, sc *Schedule, log *EventLog) *sched {
	s := &sched{n: n, sc: sc, log: log, allDone: make(chan struct{}), pairs: map[string]bool{}}
	s.wake = make([]chan struct{}, n)
	for i := range s.wake {
		s.wake[i] = make(chan struct{}, 1)
	}
	s.done = make([]bool, n)
	s.yields = make([]int, n)
	s.parked = make([]string, n)
	s.inLint = make([]bool, n)
	s.opsDone = make([]int64, n)
	s.gids = make([]uintptr, n)
	s.rng = newRNG(sc.Seed)
	if sc.Strategy == "pct" {
		s.pct = map[int]bool{}
		h := sc.Horizon
		if h < 10 {
			h = 10
		}
		for i := 0; i < sc.Depth; i++ {
			s.pct[1+s.rng.Intn(h)] = true
		}
	}
	return s
}

func (s *sched) runnable(except int) []int {
	var out []int
	for i := 0; i < s.n; i++ {
		if !s.done[i] && i != except {
			out = append(out, i)
		}
	}
	return out
}

// decide returns the client that should run after client c reached a yield
// (finished=false) or finished its op list (finished=true); -1 = nobody left.
func (s *sched) decide(c int, site string, finished bool) int {
	k := s.yields[c]
	if finished {
		k = -1
	}
	others := s.runnable(c)
	if len(others) == 0 {
		if finished {
			return -1
		}
		return c
	}
	if s.sc.Strategy == "explicit" {
		if s.ei < len(s.sc.Explicit) {
			e := s.sc.Explicit[s.ei]
			if e.C == c && e.K == k {
				s.ei++
				if e.To >= 0 && e.To < s.n && !s.done[e.To] && e.To != c {
					return e.To
				}
				if finished {
					return others[0]
				}
				return c
			}
		}
		if finished {
			return others[0]
		}
		return c
	}
	if finished {
		switch s.sc.Strategy {
		case "serial":
			return others[0]
		}
		return others[s.rng.Intn(len(others))]
	}
	if strings.HasPrefix(site, "writer:") && s.sc.Strategy != "serial" {
		// a caller-supplied writer that stalls: somebody else runs now
		for d := 1; d <= s.n; d++ {
			j := (c + d) % s.n
			if !s.done[j] && j != c {
				return j
			}
		}
	}
	next := func() int { // round robin
		for d := 1; d <= s.n; d++ {
			j := (c + d) % s.n
			if !s.done[j] && j != c {
				return j
			}
		}
		return c
	}
	switch s.sc.Strategy {
	case "serial":
		return c
	case "rr":
		return next()
	case "bernoulli":
		if s.rng.Chance(s.sc.P) {
			return others[s.rng.Intn(len(others))]
		}
	case "pct":
		if s.pct[int(s.steps)] {
			return others[s.rng.Intn(len(others))]
		}
	case "targeted":
		if site == s.sc.Target || ((strings.HasSuffix(s.sc.Target, ":") || strings.HasSuffix(s.sc.Target, ".") || strings.HasSuffix(s.sc.Target, "/")) && strings.HasPrefix(site, s.sc.Target)) {
			return next()
		}
		if s.sc.P > 0 && s.rng.Chance(s.sc.P) {
			return others[s.rng.Intn(len(others))]
		}
	}
	return c
}

func siteInLint(site string) bool {
	return strings.HasPrefix(site, "st:") || strings.HasPrefix(site, "fn:lints/") || strings.HasPrefix(site, "fn:util.") || strings.HasPrefix(site, "new:") || strings.HasPrefix(site, "conf:") || strings.HasPrefix(site, "applies:") || strings.HasPrefix(site, "exec:")
}

// Yield is called by client c at a yield site. No lock of the code under test is held here.
func (s *sched) Yield(c int, site string) {
	if atomic.LoadInt32(&s.free) != 0 {
		return
	}
	// only the client's own goroutine takes part in the baton protocol: a goroutine the code under test starts
	// inside a call (nothing forbids it) runs on, unscheduled, next to the client that started it
	if g := s.gids[c]; g != 0 && getg() != g {
		atomic.AddInt64(&s.foreignYields, 1)
		return
	}
	if n := atomic.AddInt64(&s.steps, 1); s.maxSteps > 0 && n > s.maxSteps {
		// bounded work per run: past the step budget the clients run on freely (the equality oracle does not
		// depend on the schedule; what was interleaved so far stays interleaved)
		atomic.StoreInt32(&s.free, 1)
		s.budgetHit = true
		for k := 0; k < s.n; k++ {
			if k != c {
				select {
				case s.wake[k] <- struct{}{}:
				default:
				}
			}
		}
		return
	}
	s.yields[c]++
	s.log.hashOnly(site)
	to := s.decide(c, site, false)
	if to == c {
		return
	}
	s.handoff(c, to, site, s.yields[c])
	<-s.wake[c]
}

func (s *sched) handoff(c, to int, site string, k int) {
	s.trace = append(s.trace, Switch{C: c, K: k, To: to})
	s.switches++
	s.parked[c] = site
	if siteInLint(site) && siteInLint(s.parked[to]) {
		s.insideSwitch++
		if len(s.pairs) < 300 {
			s.pairs[phaseOf(site)+">"+phaseOf(s.parked[to])+"|"+lintOf(site)+">"+lintOf(s.parked[to])] = true
		}
	}
	s.log.Add("switch c%d@%d(%s) -> c%d(%s)", c, k, site, to, s.parked[to])
	s.cur = to
	s.wake[to] <- struct{}{}
}

func phaseOf(site string) string {
	if i := strings.Index(site, ":"); i > 0 {
		return site[:i]
	}
	return site
}
func lintOf(site string) string {
	if i := strings.Index(site, ":"); i > 0 {
		return site[i+1:]
	}
	return ""
}

func (s *sched) Finish(c int) {
	if atomic.LoadInt32(&s.free) != 0 {
		s.mu.Lock()
		s.done[c] = true
		left := len(s.runnable(-1))
		s.mu.Unlock()
		if left == 0 {
			close(s.allDone)
		}
		return
	}
	s.done[c] = true
	to := s.decide(c, "finish", true)
	if to < 0 {
		close(s.allDone)
		return
	}
	s.handoff(c, to, "finished", -1)
}

// hashOnly folds a line into the trace hash without keeping it.
func (l *EventLog) hashOnly(s string) {
	keep := l.keep
	l.keep = false
	l.Add("%s", s)
	l.keep = keep
}

// ---------------------------------------------------------------- registry wrapper (stub around the real registry)

type simReg struct {
	real lint.Registry
	c    int
	s    *sched
	cl   *simCertLookup
	rl   *simCRLLookup
	ol   *simOCSPLookup
}

func wrapReg(r lint.Registry, c int, s *sched) *simReg {
	w := &simReg{real: r, c: c, s: s}
	w.cl = &simCertLookup{CertificateLinterLookup: r.CertificateLints(), w: w}
	w.rl = &simCRLLookup{RevocationListLinterLookup: r.RevocationListLints(), w: w}
	w.ol = &simOCSPLookup{OcspResponseLinterLookup: r.OcspResponseLints(), w: w}
	return w
}

func (w *simReg) y(site string)                             { w.s.Yield(w.c, site) }
func (w *simReg) Names() []string                           { w.y("reg:Names"); return w.real.Names() }
func (w *simReg) Sources() lint.SourceList                  { w.y("reg:Sources"); return w.real.Sources() }
func (w *simReg) DefaultConfiguration() ([]byte, error)     { w.y("reg:DefaultConfiguration"); return w.real.DefaultConfiguration() }
func (w *simReg) ByName(name string) *lint.Lint             { w.y("reg:ByName"); return w.real.ByName(name) }
func (w *simReg) BySource(s lint.LintSource) []*lint.Lint   { w.y("reg:BySource"); return w.real.BySource(s) }
func (w *simReg) WriteJSON(wr io.Writer)                    { w.y("reg:WriteJSON"); w.real.WriteJSON(wr) }
func (w *simReg) SetConfiguration(c lint.Configuration)     { w.real.SetConfiguration(c) }
func (w *simReg) GetConfiguration() lint.Configuration      { return w.real.GetConfiguration() }
func (w *simReg) CertificateLints() lint.CertificateLinterLookup       { return w.cl }
func (w *simReg) RevocationListLints() lint.RevocationListLinterLookup { return w.rl }
func (w *simReg) OcspResponseLints() lint.OcspResponseLinterLookup     { return w.ol }
func (w *simReg) Filter(o lint.FilterOptions) (lint.Registry, error) {
	w.y("reg:Filter")
	child, err := w.real.Filter(o)
	w.y("reg:Filter.done")
	if err != nil || child == nil {
		return child, err
	}
	return wrapReg(child, w.c, w.s), nil
}

type simCertLookup struct {
	lint.CertificateLinterLookup
	w       *simReg
	wrapped []*lint.CertificateLint
}

type certShell struct {
	inst lint.CertificateLintInterface
	name string
	w    *simReg
}
type certShellC struct {
	certShell
	cf lint.Configurable
}

func (x *certShell) CheckApplies(c *x509.Certificate) bool { x.w.y("applies:" + x.name); return x.inst.CheckApplies(c) }
func (x *certShell) Execute(c *x509.Certificate) *lint.LintResult {
	x.w.y("exec:" + x.name)
	return x.inst.Execute(c)
}
func (x *certShellC) Configure() interface{} { x.w.y("conf:" + x.name); return x.cf.Configure() }

func (l *simCertLookup) Lints() []*lint.CertificateLint {
	l.w.y("reg:CertificateLints.Lints")
	if l.wrapped == nil {
		for _, L := range l.CertificateLinterLookup.Lints() {
			L := L
			l.wrapped = append(l.wrapped, &lint.CertificateLint{LintMetadata: L.LintMetadata, Lint: func() lint.CertificateLintInterface {
				l.w.y("new:" + L.Name)
				inst := L.Lint()
				sh := certShell{inst: inst, name: L.Name, w: l.w}
				if cf, ok := inst.(lint.Configurable); ok {
					return &certShellC{sh, cf}
				}
				return &sh
			}})
		}
		if l.wrapped == nil {
			l.wrapped = []*lint.CertificateLint{}
		}
	}
	return l.wrapped
}

type simCRLLookup struct {
	lint.RevocationListLinterLookup
	w       *simReg
	wrapped []*lint.RevocationListLint
}
type crlShell struct {
	inst lint.RevocationListLintInterface
	name string
	w    *simReg
}
type crlShellC struct {
	crlShell
	cf lint.Configurable
}

func (x *crlShell) CheckApplies(c *x509.RevocationList) bool { x.w.y("applies:" + x.name); return x.inst.CheckApplies(c) }
func (x *crlShell) Execute(c *x509.RevocationList) *lint.LintResult {
	x.w.y("exec:" + x.name)
	return x.inst.Execute(c)
}
func (x *crlShellC) Configure() interface{} { x.w.y("conf:" + x.name); return x.cf.Configure() }

func (l *simCRLLookup) Lints() []*lint.RevocationListLint {
	l.w.y("reg:RevocationListLints.Lints")
	if l.wrapped == nil {
		for _, L := range l.RevocationListLinterLookup.Lints() {
			L := L
			l.wrapped = append(l.wrapped, &lint.RevocationListLint{LintMetadata: L.LintMetadata, Lint: func() lint.RevocationListLintInterface {
				l.w.y("new:" + L.Name)
				inst := L.Lint()
				sh := crlShell{inst: inst, name: L.Name, w: l.w}
				if cf, ok := inst.(lint.Configurable); ok {
					return &crlShellC{sh, cf}
				}
				return &sh
			}})
		}
		if l.wrapped == nil {
			l.wrapped = []*lint.RevocationListLint{}
		}
	}
	return l.wrapped
}

type simOCSPLookup struct {
	lint.OcspResponseLinterLookup
	w       *simReg
	wrapped []*lint.OcspResponseLint
}
type ocspShell struct {
	inst lint.OcspResponseLintInterface
	name string
	w    *simReg
}
type ocspShellC struct {
	ocspShell
	cf lint.Configurable
}

func (x *ocspShell) CheckApplies(c *ocsp.Response) bool { x.w.y("applies:" + x.name); return x.inst.CheckApplies(c) }
func (x *ocspShell) Execute(c *ocsp.Response) *lint.LintResult {
	x.w.y("exec:" + x.name)
	return x.inst.Execute(c)
}
func (x *ocspShellC) Configure() interface{} { x.w.y("conf:" + x.name); return x.cf.Configure() }

func (l *simOCSPLookup) Lints() []*lint.OcspResponseLint {
	l.w.y("reg:OcspResponseLints.Lints")
	if l.wrapped == nil {
		for _, L := range l.OcspResponseLinterLookup.Lints() {
			L := L
			l.wrapped = append(l.wrapped, &lint.OcspResponseLint{LintMetadata: L.LintMetadata, Lint: func() lint.OcspResponseLintInterface {
				l.w.y("new:" + L.Name)
				inst := L.Lint()
				sh := ocspShell{inst: inst, name: L.Name, w: l.w}
				if cf, ok := inst.(lint.Configurable); ok {
					return &ocspShellC{sh, cf}
				}
				return &sh
			}})
		}
		if l.wrapped == nil {
			l.wrapped = []*lint.OcspResponseLint{}
		}
	}
	return l.wrapped
}

// ---------------------------------------------------------------- generation

// genSchedPair: the pair sweep of the fine-grain batch. Run i takes the i-th
// lint that has a finding on at least two corpus objects, gives 2-3 such
// objects to as many clients, each linting with the singleton registry of
// that lint, and switches the baton at every function entry (round robin):
// the bodies of the same lint on different objects are interleaved call by call.
func genSchedPair(seed uint64, prop, tier, mode string) *Plan {
	g := newRNG(seed)
	i, _ := parseSlice(mode)
	p := &Plan{Engine: "sched", Prop: prop, Seed: seed, Tier: tier, Knobs: map[string]any{"worker_mode": mode, "finegrain": true}}
	cidx := corpusClassIndex()
	byLint := map[string][]int{}
	for k := range cidx {
		for _, n := range cidx[k].Find {
			byLint[n] = append(byLint[n], k)
		}
	}
	var lints []string
	for _, n := range sortedKeys(byLint) {
		if len(byLint[n]) >= 2 {
			lints = append(lints, n)
		}
	}
	if len(lints) == 0 {
		die(2, "pair sweep: no lint with two finding objects")
	}
	L := lints[i%len(lints)]
	objs := byLint[L]
	K := 2
	if len(objs) >= 3 && g.Chance(0.4) {
		K = 3
	}
	p.Knobs["lint"] = L
	p.Knobs["clients"] = K
	p.Ops = append(p.Ops, Op{K: "filter", Reg: 0, Opts: &FilterOpts{IncludeNames: []string{L}}})
	for c, oi := range g.subset(len(objs), K) {
		o := loadCorpusFile(cidx[objs[oi]].File)
		if o == nil {
			continue
		}
		p.Objects = append(p.Objects, *o)
		_ = c
		p.Clients = append(p.Clients, []Op{{K: "lint", Obj: len(p.Objects) - 1, Reg: 1}})
	}
	p.Schedule = &Schedule{Strategy: "rr", Seed: g.U64()}
	if g.Chance(0.3) {
		p.Schedule = &Schedule{Strategy: "bernoulli", P: 0.5, Seed: g.U64()}
	}
	// half of the pairs are interleaved statement by statement
	p.Schedule.Stmt = g.Chance(0.5)
	return p
}

// stormExtra: the opening burst does not eat into a client's ordinary ops.
func stormExtra(storm string, n int) int {
	if storm == "" {
		return 0
	}
	return n
}

func genSched(seed uint64, prop, tier, mode string) *Plan {
	if strings.HasPrefix(mode, "fgpair") {
		return genSchedPair(seed, prop, tier, mode)
	}
	g := newRNG(seed)
	meta := readMetaTable()
	idx := corpusIndex()
	p := &Plan{Engine: "sched", Prop: prop, Seed: seed, Tier: tier, Knobs: map[string]any{}}
	hg := &histGen{g: g, meta: meta, p: p, prof: profileFor("C07")}
	race := strings.HasPrefix(mode, "free")
	fg := strings.HasPrefix(mode, "fg")
	K := 2 + g.weighted([]int{5, 4, 3, 1, 1, 1, 1})
	if fg {
		K = 2 + g.weighted([]int{6, 3, 1})
	}
	if race {
		K = 4 + g.Intn(13) // 4..16 free-running clients
	}
	opsPer := g.Range(2, 5)
	if race {
		opsPer = g.Range(12, 36)
	}
	p.Knobs["clients"] = K
	p.Knobs["ops_per_client"] = opsPer
	if race || fg {
		p.Knobs["worker_mode"] = mode
	}
	if fg {
		p.Knobs["finegrain"] = true
		opsPer = g.Range(1, 3)
	}

	// ---- setup (sequential, before the clients start): shared registries, configurations
	all := map[string]bool{}
	for _, n := range meta.Names {
		all[n] = true
	}
	hg.mregs = []*ModelReg{{Sel: all, Cfg: -1}}
	nShared := g.Range(1, 3)
	small := g.Chance(0.5) || fg // small registries make schedules dense in distinct interleavings
	for r := 0; r < nShared; r++ {
		if small && g.Chance(0.7) {
			names := meta.namesOfKind(KCert, false)
			var in []string
			for _, j := range g.subset(len(names), g.Range(2, 30)) {
				in = append(in, names[j])
			}
			in = append(in, meta.namesOfKind(KCRL, true)...)
			in = append(in, meta.namesOfKind(KOCSP, true)...)
			hg.emitFilterOpts(0, &FilterOpts{IncludeNames: in})
		} else {
			hg.emitFilter(g.Intn(len(hg.mregs)))
		}
	}
	// configurations naming every real configurable lint (so that Configure writes
	// into the instance) with different values per shared registry
	for r := 0; r < len(hg.mregs); r++ {
		if !g.Chance(0.7) {
			continue
		}
		var sb strings.Builder
		var targets []string
		for _, n := range configurableNames(meta, false) {
			if !meta.ByName[n].Probe || g.Chance(0.15) {
				sb.WriteString(legalSection(g, n, configurableFields(n)))
				targets = append(targets, n)
			}
		}
		c := CfgSpec{Class: "option", Text: sb.String(), Targets: targets, Via: "string"}
		if !tomlOK(c.Text) {
			continue
		}
		p.Cfgs = append(p.Cfgs, c)
		ci := len(p.Cfgs) - 1
		p.Ops = append(p.Ops, Op{K: "loadcfg", Cfg: ci}, Op{K: "setcfg", Reg: r, Cfg: ci})
		hg.mregs[r].Cfg = ci
	}
	shared := len(hg.mregs)
	p.Knobs["shared_registries"] = shared

	// ---- a storm: in a share of the runs every client opens with a burst of the same kind of
	// registry operation with related arguments (filters whose source lists share their first
	// entries and differ in the rest, overlapping name lists, listings) - all clients are then
	// inside the same registry code, cold, at the same time
	storm := ""
	if (race && g.Chance(0.6)) || (!race && g.Chance(0.25)) {
		storm = pick(g, []string{"filter-sources", "filter-sources", "filter-names", "filter-mixed", "listings"})
	}
	p.Knobs["storm"] = storm
	stormSrcs := meta.sources()
	stormHead := []string{pick(g, stormSrcs)}
	if g.Chance(0.4) {
		stormHead = append(stormHead, pick(g, stormSrcs))
	}
	stormNames := func() []string {
		var out []string
		for _, j := range g.subset(len(meta.Names), g.Range(3, 40)) {
			out = append(out, meta.Names[j])
		}
		return out
	}()
	stormN := g.Range(2, 6)
	// shared option values: in a share of the filter storms all clients filter with the very same option value
	// (same backing arrays): lists that are not in order, repeat entries and carry stray blanks
	var sharedSrc, sharedNames *FilterOpts
	if strings.HasPrefix(storm, "filter") && g.Chance(0.45) {
		var sl []string
		for t := g.Range(3, 9); t > 0; t-- {
			sl = append(sl, pick(g, stormSrcs))
		}
		sharedSrc = &FilterOpts{IncludeSources: sl}
		if g.Chance(0.3) {
			sharedSrc = &FilterOpts{ExcludeSources: sl}
		}
		var nl []string
		for _, j := range g.Perm(len(stormNames)) {
			n := stormNames[j]
			if g.Chance(0.3) {
				n = pick(g, []string{" ", "\t", ""}) + n + pick(g, []string{" ", ""})
			}
			nl = append(nl, n)
			if g.Chance(0.15) {
				nl = append(nl, stormNames[j])
			}
		}
		sharedNames = &FilterOpts{IncludeNames: nl}
		if g.Chance(0.3) {
			sharedNames = &FilterOpts{ExcludeNames: nl}
		}
		p.Knobs["storm_shared_options"] = true
	}
	// cold listings: in most listing storms every client issues the *same* sequence of listing
	// operations on the same shared registries (which nobody has listed before), so that whatever
	// a registry builds on first use is built by all clients at once
	var coldK []string
	var coldReg []int
	if storm == "listings" && g.Chance(0.75) {
		for k := 0; k < stormN; k++ {
			coldK = append(coldK, pick(g, []string{"sources", "sources", "names", "writejson", "observe", "defaultcfg"}))
			r := 0
			if shared > 1 && g.Chance(0.8) {
				r = 1 + g.Intn(shared-1)
			}
			coldReg = append(coldReg, r)
		}
		p.Knobs["storm_cold"] = true
	}

	// ---- clients: own objects, ops over shared registries (+ own filtered ones)
	for c := 0; c < K; c++ {
		var ops []Op
		nObj := g.Range(1, 3)
		if race {
			nObj = g.Range(4, 12) // many different objects per client: more of the rarely taken paths run in parallel
		}
		var mine []int
		for i := 0; i < nObj; i++ {
			kind := KCert
			switch g.Intn(8) {
			case 0:
				kind = KCRL
			case 1:
				kind = KOCSP
			}
			o := drawCorpusObject(g, idx, kind)
			if o == nil {
				o = drawCorpusObject(g, idx, KCert)
			}
			o = maybeSynth(g, idx, o, map[bool]float64{false: 0.3, true: 0.5}[race])
			p.Objects = append(p.Objects, *o)
			mine = append(mine, len(p.Objects)-1)
		}
		local := []*ModelReg{}
		regModel := func(r int) *ModelReg {
			if r < shared {
				return hg.mregs[r]
			}
			return local[r-shared]
		}
		pickReg := func() int {
			n := shared + len(local)
			if small && g.Chance(0.8) && shared > 1 {
				return 1 + g.Intn(shared-1)
			}
			return g.Intn(n)
		}
		for k := 0; storm != "" && k < stormN; k++ {
			var o *FilterOpts
			kind := storm
			if kind == "filter-mixed" {
				kind = pick(g, []string{"filter-sources", "filter-names", "listings"})
			}
			switch kind {
			case "filter-sources":
				o = &FilterOpts{}
				list := append([]string(nil), stormHead...)
				for t := g.Range(1, 3); t > 0; t-- {
					list = append(list, pick(g, stormSrcs))
				}
				if g.Chance(0.8) {
					o.IncludeSources = list
				} else {
					o.ExcludeSources = list
				}
			case "filter-names":
				o = &FilterOpts{}
				list := append([]string(nil), stormNames[:g.Range(1, len(stormNames))]...)
				for t := g.Range(0, 3); t > 0; t-- {
					list = append(list, pick(g, meta.Names))
				}
				if g.Chance(0.7) {
					o.IncludeNames = list
				} else {
					o.ExcludeNames = list
				}
			default:
				if coldK != nil && storm == "listings" {
					ops = append(ops, Op{K: coldK[k], Reg: coldReg[k], Note: "storm"})
					continue
				}
				ops = append(ops, Op{K: pick(g, []string{"names", "sources", "writejson", "observe", "defaultcfg"}), Reg: 0, Note: "storm"})
				continue
			}
			r := 0
			if shared > 1 && g.Chance(0.3) {
				r = g.Intn(shared)
			}
			note := "storm"
			if sharedSrc != nil && kind == "filter-sources" {
				o, r, note = sharedSrc, 0, "storm,sharedopts"
			} else if sharedNames != nil && kind == "filter-names" {
				o, r, note = sharedNames, 0, "storm,sharedopts"
			}
			ops = append(ops, Op{K: "filter", Reg: r, Opts: o, Note: note})
			if v := modelFilter(meta, regModel(r), o); !v.Err {
				local = append(local, &ModelReg{Sel: v.Sel, Cfg: regModel(r).Cfg})
				if g.Chance(0.5) {
					ops = append(ops, Op{K: "names", Reg: shared + len(local) - 1, Note: "storm"})
				}
			}
		}
		for len(ops) < opsPer+stormExtra(storm, stormN) {
			w := []int{60, 10, 4, 3, 3, 3, 3, 2, 3}
			if race {
				w = []int{50, 14, 6, 5, 5, 5, 5, 4, 6}
			}
			switch g.weighted(w) {
			case 0:
				ops = append(ops, Op{K: "lint", Obj: pick(g, mine), Reg: pickReg(), Fresh: g.Chance(0.3)})
			case 1:
				if len(local) < 8 {
					r := pickReg()
					o := genFilterOpts(g, meta, regModel(r), 0.05)
					ops = append(ops, Op{K: "filter", Reg: r, Opts: o})
					if v := modelFilter(meta, regModel(r), o); !v.Err {
						local = append(local, &ModelReg{Sel: v.Sel, Cfg: regModel(r).Cfg})
					}
				}
			case 2:
				ops = append(ops, Op{K: "names", Reg: pickReg()})
			case 3:
				ops = append(ops, Op{K: "sources", Reg: pickReg()})
			case 4:
				ops = append(ops, Op{K: "byname", Reg: pickReg(), Name: pick(g, meta.Names)})
			case 5:
				ops = append(ops, Op{K: "bysource", Reg: pickReg(), Source: pick(g, meta.sources())})
			case 6:
				wj := Op{K: "writejson", Reg: pickReg()}
				if g.Chance(0.5) {
					wj.Note = "stall" // the writer handed to the listing stalls: the others must be able to go on
				}
				ops = append(ops, wj)
			case 7:
				ops = append(ops, Op{K: "defaultcfg", Reg: pickReg()})
			case 8:
				ops = append(ops, Op{K: "observe", Reg: pickReg()})
			}
		}
		p.Clients = append(p.Clients, ops)
	}

	// ---- one key, several certificates, several configurations: distinct certificates carrying the same
	// Fermat-weak RSA key go to different clients, and two shared registries hold round counts on either
	// side of the number of rounds that factors that key - concurrent calls on the same key whose correct
	// verdicts differ
	if shared >= 2 && ((race && g.Chance(0.35)) || (!race && g.Chance(0.15))) {
		var cand []int
		for i, e := range fermatPool {
			if e.K >= 8 && e.K <= 4000 {
				cand = append(cand, i)
			}
		}
		wi := pick(g, cand)
		K0 := fermatPool[wi].K
		lo := CfgSpec{Class: "option", Text: fmt.Sprintf("[e_rsa_fermat_factorization]\nRounds = %d\n", K0-1), Targets: []string{"e_rsa_fermat_factorization"}, Via: "string"}
		hi := CfgSpec{Class: "option", Text: fmt.Sprintf("[e_rsa_fermat_factorization]\nRounds = %d\n", K0+2), Targets: []string{"e_rsa_fermat_factorization"}, Via: "string"}
		p.Cfgs = append(p.Cfgs, lo, hi)
		ciLo, ciHi := len(p.Cfgs)-2, len(p.Cfgs)-1
		rLo, rHi := 0, 1+g.Intn(shared-1)
		if !hg.mregs[rHi].Sel["e_rsa_fermat_factorization"] {
			rHi = 0
			rLo = -1
		}
		if rLo >= 0 {
			p.Ops = append(p.Ops, Op{K: "loadcfg", Cfg: ciLo}, Op{K: "setcfg", Reg: rLo, Cfg: ciLo}, Op{K: "loadcfg", Cfg: ciHi}, Op{K: "setcfg", Reg: rHi, Cfg: ciHi})
			synthForceWeakKey, synthForceWeakIdx = true, wi
			nC := g.Range(2, K)
			for j, c := range g.subset(K, nC) {
				o := synthCert(g, idx)
				if o == nil {
					continue
				}
				p.Objects = append(p.Objects, *o)
				oi := len(p.Objects) - 1
				var burst []Op
				for t := g.Range(2, 5); t > 0; t-- {
					r := rLo
					if (j+t)%2 == 0 {
						r = rHi
					}
					burst = append(burst, Op{K: "lint", Obj: oi, Reg: r, Fresh: g.Chance(0.5), Note: "one-key"})
				}
				p.Clients[c] = append(burst, p.Clients[c]...)
			}
			synthForceWeakKey, synthForceWeakIdx = false, -1
			p.Knobs["one_key_rounds"] = K0
		}
	}

	// ---- scale: in a few runs several clients open with an object of unusual size at the same time -
	// certificates with thousands of names, revocation lists with tens of thousands of entries
	// (whatever rules and helpers budget, pool or memoise per element is exercised at volume, in parallel)
	if (race && g.Chance(0.14)) || (fg && g.Chance(0.06)) {
		kindOfScale := pick(g, []string{"names", "names", "crl"})
		if fg {
			kindOfScale = "names"
		}
		nC := g.Range(2, 4)
		if kindOfScale == "crl" {
			nC = g.Range(5, K)
		}
		if nC > K {
			nC = K
		}
		p.Knobs["scale"] = kindOfScale
		for _, c := range g.subset(K, nC) {
			var o *ObjSpec
			if kindOfScale == "names" {
				synthForceManyNames = pick(g, []int{2500, 5000, 5000})
				o = synthCert(g, idx)
				synthForceManyNames = 0
			} else {
				synthForceCRLEntries = pick(g, []int{20000, 45000, 70000})
				o = synthBigCRL(g, idx)
				synthForceCRLEntries = 0
			}
			if o == nil {
				continue
			}
			p.Objects = append(p.Objects, *o)
			oi := len(p.Objects) - 1
			burst := []Op{{K: "lint", Obj: oi, Reg: 0, Note: "scale"}}
			if g.Chance(0.5) {
				burst = append(burst, Op{K: "lint", Obj: oi, Reg: 0, Fresh: true, Note: "scale"})
			}
			p.Clients[c] = append(burst, p.Clients[c]...)
		}
	}

	// ---- rarely taken paths in parallel: for a few lints, objects on which that lint has a
	// finding are handed to different clients (appended: the draws above stay as they were)
	{
		cidx := corpusClassIndex()
		byLint := map[string][]int{}
		for i := range cidx {
			for _, n := range cidx[i].Find {
				byLint[n] = append(byLint[n], i)
			}
		}
		lints := sortedKeys(byLint)
		nT := g.Range(1, 3)
		if race {
			nT = g.Range(3, 8)
		}
		for t := 0; t < nT && len(lints) > 0; t++ {
			L := pick(g, lints)
			objs := byLint[L]
			k := len(objs)
			if k > 4 {
				k = 4
			}
			for j, oi := range g.subset(len(objs), k) {
				o := loadCorpusFile(cidx[objs[oi]].File)
				if o == nil {
					continue
				}
				c := (g.Intn(K) + j) % K
				p.Objects = append(p.Objects, *o)
				pos := g.Intn(len(p.Clients[c]) + 1)
				op := Op{K: "lint", Obj: len(p.Objects) - 1, Reg: 0, Note: "finding:" + L}
				p.Clients[c] = append(p.Clients[c][:pos], append([]Op{op}, p.Clients[c][pos:]...)...)
			}
		}
	}

	// ---- lint families in parallel: rules of one family (one source document, or one word of the
	// rule names: qcstatem, idn, onion, crl ...) tend to share their helpers. In a share of the runs
	// objects on which *some* rule of a seeded family has a finding open every client's op list -
	// different objects, different extension values, the same helper code at the same time.
	if (race && g.Chance(0.5)) || (!race && g.Chance(0.3)) {
		cidx := corpusClassIndex()
		fam := map[string]map[int]bool{}
		famLints := map[string]map[string]bool{}
		note := func(f string, L string, i int) {
			if fam[f] == nil {
				fam[f] = map[int]bool{}
				famLints[f] = map[string]bool{}
			}
			fam[f][i] = true
			famLints[f][L] = true
		}
		for i := range cidx {
			for _, n := range cidx[i].Find {
				if m, ok := meta.ByName[n]; ok {
					note("source:"+m.Source, n, i)
				}
				if toks := strings.Split(n, "_"); len(toks) > 2 {
					note("word:"+toks[1], n, i)
				}
			}
		}
		var fams []string
		for _, f := range sortedKeys(fam) {
			if len(fam[f]) >= 2 && len(famLints[f]) >= 2 && len(famLints[f]) <= 40 {
				fams = append(fams, f)
			}
		}
		if len(fams) > 0 {
			F := pick(g, fams)
			var objs []int
			for i := range fam[F] {
				objs = append(objs, i)
			}
			sort.Ints(objs)
			p.Knobs["family"] = F
			reps := 1
			if race {
				reps = g.Range(1, 4)
			}
			for c := 0; c < K; c++ {
				o := loadCorpusFile(cidx[objs[g.Intn(len(objs))]].File)
				if o == nil {
					continue
				}
				p.Objects = append(p.Objects, *o)
				var burst []Op
				for r := 0; r < reps; r++ {
					burst = append(burst, Op{K: "lint", Obj: len(p.Objects) - 1, Reg: 0, Fresh: r > 0, Note: "family:" + F})
				}
				p.Clients[c] = append(burst, p.Clients[c]...)
			}
		}
	}

	// ---- the same bytes everywhere, cold: in a share of the runs every client opens by linting its own parse of
	// one and the same object. Whatever the code initialises lazily per name, per date, per identifier is then
	// asked for the same entry by all clients at the same moment, for the first time in the process.
	if (race && g.Chance(0.35)) || (!race && g.Chance(0.15)) {
		o := drawCorpusObject(g, corpusIndex(), KCert)
		if o != nil {
			o = maybeSynth(g, corpusIndex(), o, 0.3)
			for c := 0; c < K; c++ {
				p.Objects = append(p.Objects, *o)
				op := Op{K: "lint", Obj: len(p.Objects) - 1, Reg: 0, Note: "same-bytes"}
				p.Clients[c] = append([]Op{op}, p.Clients[c]...)
			}
			p.Knobs["same_bytes_start"] = true
		}
	}

	// ---- a shared helper, several objects (fine-grain build): the helper index says which (object, lint) pairs
	// enter which function of package util. Half of the fine-grain runs pick one such function, hand objects that
	// enter it - through different rules where possible - to all clients as their first operations (through
	// different registries, so that the clients do not march in step), and let the schedule switch at every
	// entry of that function on top of a low background rate.
	helperTarget := ""
	if strings.HasPrefix(mode, "fg") && !strings.HasPrefix(mode, "fgpair") && g.Chance(0.5) {
		if hidx := helperIndex(); len(hidx) > 0 {
			H := pick(g, sortedKeys(hidx))
			uses := hidx[H]
			order := g.Perm(len(uses))
			usedFile := map[string]bool{}
			c := 0
			for _, j := range order {
				if c >= K {
					break
				}
				u := uses[j]
				if usedFile[u.File] {
					continue
				}
				o := loadCorpusFile(u.File)
				if o == nil {
					continue
				}
				usedFile[u.File] = true
				p.Objects = append(p.Objects, *o)
				oi := len(p.Objects) - 1
				r1, r2 := g.Intn(shared), g.Intn(shared)
				burst := []Op{{K: "lint", Obj: oi, Reg: r1, Note: "helper:" + H}, {K: "lint", Obj: oi, Reg: r2, Fresh: true, Note: "helper:" + H}}
				p.Clients[c] = append(burst, p.Clients[c]...)
				c++
			}
			if c >= 2 {
				helperTarget = "fn:" + H
				p.Knobs["helper"] = H
			}
		}
	}

	// ---- schedule
	sc := &Schedule{Seed: g.U64()}
	switch g.weighted([]int{2, 4, 4, 5}) {
	case 0:
		sc.Strategy = "rr"
	case 1:
		sc.Strategy = "bernoulli"
		sc.P = pick(g, []float64{0.01, 0.1, 0.5})
	case 2:
		sc.Strategy = "pct"
		sc.Depth = g.Range(1, 5)
		sc.Horizon = K * opsPer * 400
		if small {
			sc.Horizon = K * opsPer * 40
		}
	case 3:
		sc.Strategy = "targeted"
		// a lint of a registry the clients share, at a seeded lifecycle phase
		r := hg.mregs[g.Intn(shared)]
		names := r.namesOfKind(meta, KCert)
		if len(names) == 0 {
			names = meta.namesOfKind(KCert, false)
		}
		conf := configurableNames(meta, false)
		var cands []string
		for _, n := range conf {
			if r.Sel[n] {
				cands = append(cands, n)
			}
		}
		n := pick(g, names)
		if len(cands) > 0 && g.Chance(0.4) {
			n = pick(g, cands)
		}
		sc.Target = pick(g, []string{"exec:", "exec:", "applies:", "new:", "conf:"})
		if g.Chance(0.45) {
			sc.Target += n // one lint; otherwise every lint at that phase
		}
		sc.P = pick(g, []float64{0, 0, 0.02})
	}
	if fg {
		// function-entry yields: a lint call passes thousands of sites
		switch g.Intn(4) {
		case 0:
			sc.Strategy, sc.P = "bernoulli", pick(g, []float64{0.002, 0.02, 0.2})
		case 1:
			sc.Strategy, sc.Depth, sc.Horizon = "pct", g.Range(1, 6), K*opsPer*1500
		case 2:
			sc.Strategy, sc.Target, sc.P = "targeted", pick(g, []string{"fn:util.", "fn:lint.", "fn:lints/"}), 0
		case 3:
			sc.Strategy = "rr"
		}
		// statement grain: every statement of a rule body or helper is a place to switch (the window
		// between two statements of one function, which function-entry yields cannot open)
		if g.Chance(0.35) {
			sc.Stmt = true
			if sc.Strategy == "targeted" && g.Chance(0.5) {
				sc.Target = pick(g, []string{"st:util/", "st:lints/"})
			}
			if sc.Strategy == "pct" {
				sc.Horizon *= 4
			}
		}
	}
	if helperTarget != "" {
		// switch at every entry of the shared helper (statement grain: also between its statements is left to the
		// background rate), plus a low background rate so that the clients drift apart
		sc.Strategy, sc.Target, sc.P = "targeted", helperTarget, pick(g, []float64{0.01, 0.05, 0.2})
	}
	p.Schedule = sc
	return p
}

// ---------------------------------------------------------------- execution

type schedOpResult struct {
	Hash  string    `json:"h"`
	Text  string    `json:"t,omitempty"`
	Canon *CanonSet `json:"canon,omitempty"`
}

type schedOut struct {
	Results [][]schedOpResult `json:"results"`
}

type clientState struct {
	id    int
	ops   []Op
	regs  []lint.Registry // local registries
	out   []schedOpResult
	objs  map[int]*Parsed
}

func execClientOp(p *Plan, shared []lint.Registry, cs *clientState, op *Op, full bool) (res schedOpResult) {
	defer func() {
		if r := recover(); r != nil {
			res = schedOpResult{Hash: "panic", Text: "panic: " + clip(fmt.Sprint(r), 300)}
		}
	}()
	var reg lint.Registry
	if op.Reg < len(shared) {
		reg = shared[op.Reg]
	} else if op.Reg-len(shared) < len(cs.regs) {
		reg = cs.regs[op.Reg-len(shared)]
	} else {
		return schedOpResult{Hash: "skip", Text: "registry not created"}
	}
	txt := func(s string) schedOpResult { return schedOpResult{Hash: shortHash(s), Text: clip(s, 400)} }
	switch op.K {
	case "lint":
		o := &p.Objects[op.Obj]
		pp := cs.objs[op.Obj]
		if pp == nil || op.Fresh {
			var err error
			pp, err = parseObj(o.Kind, o.DER)
			if err != nil {
				return txt("parse error")
			}
			cs.objs[op.Obj] = pp
		}
		var rs *zlint.ResultSet
		switch o.Kind {
		case KCert:
			rs = zlint.LintCertificateEx(pp.Cert, reg)
		case KCRL:
			rs = zlint.LintRevocationListEx(pp.CRL, reg)
		case KOCSP:
			rs = zlint.LintOcspResponseEx(pp.OCSP, reg)
		}
		c := &CanonSet{Results: map[string]Res{}}
		if rs == nil {
			c.Nil = true
		} else {
			c.Version = rs.Version
			c.Flags = [4]bool{rs.NoticesPresent, rs.WarningsPresent, rs.ErrorsPresent, rs.FatalsPresent}
			for n, r := range rs.Results {
				if r == nil {
					c.Results[n] = Res{S: -2}
					continue
				}
				d := r.Details
				if r.LintMetadata.Name != n {
					d += " <metadata name " + r.LintMetadata.Name + ">"
				}
				c.Results[n] = Res{S: int(r.Status), D: d}
			}
		}
		out := schedOpResult{Hash: c.hash()}
		if full {
			out.Canon = c
		}
		return out
	case "filter":
		fo, err := op.Opts.real()
		if err != nil {
			return txt("bad regexp")
		}
		if strings.Contains(op.Note, "sharedopts") {
			// one option value (one set of backing arrays) used by every client, as workers deriving their
			// registries from the same parsed command line would
			if sh := schedSharedOpts[mustJSON(op.Opts)]; sh != nil {
				fo = *sh
			}
		}
		child, ferr := reg.Filter(fo)
		if ferr != nil {
			return txt("error: " + ferr.Error())
		}
		cs.regs = append(cs.regs, child)
		return txt("ok " + strings.Join(child.Names(), ","))
	case "names":
		return txt(strings.Join(reg.Names(), ","))
	case "sources":
		var ss []string
		for _, s := range reg.Sources() {
			ss = append(ss, string(s))
		}
		sort.Strings(ss)
		return txt(strings.Join(ss, ","))
	case "byname":
		l := reg.ByName(op.Name)
		if l == nil {
			return txt("nil")
		}
		return txt(fmt.Sprintf("%s|%s|%s|%s|%v|%v", l.Name, l.Source, l.Description, l.Citation, l.EffectiveDate.Unix(), l.IneffectiveDate.Unix()))
	case "bysource":
		var ns []string
		for _, l := range reg.BySource(lint.LintSource(op.Source)) {
			ns = append(ns, l.Name)
		}
		return txt(strings.Join(ns, ","))
	case "writejson":
		if op.Note == "stall" {
			w := &stallWriter{c: cs.id}
			reg.WriteJSON(w)
			return txt(w.sb.String())
		}
		var sb strings.Builder
		reg.WriteJSON(&sb)
		return txt(sb.String())
	case "defaultcfg":
		b, err := reg.DefaultConfiguration()
		return txt(fmt.Sprintf("%v|%s", err, b))
	case "observe":
		return txt(mustJSON(observe(reg)))
	}
	return txt("unknown op")
}

func runSched(p *Plan, keepLog bool, mode string) *RunResult {
	if mode == "" && p.Knobs != nil {
		if m, ok := p.Knobs["worker_mode"].(string); ok {
			mode = m
		}
	}
	log := &EventLog{keep: keepLog}
	log.Add("seed=%d engine=sched prop=%s mode=%s clients=%d", p.Seed, p.Prop, mode, len(p.Clients))
	res := &RunResult{Seed: p.Seed, Engine: "sched", Prop: p.Prop, Counters: counters{}, Distinct: map[string][]string{}}
	curScript = nil
	full := mode != "serial" || os.Getenv("ZSIM_SCHED_FULL") != ""

	// ---- setup ops (sequential)
	g := lint.GlobalRegistry()
	g.SetConfiguration(lint.NewEmptyConfig())
	shared := []lint.Registry{g}
	cfgs := make([]*lint.Configuration, len(p.Cfgs))
	for i := range p.Ops {
		op := &p.Ops[i]
		switch op.K {
		case "filter":
			fo, err := op.Opts.real()
			if err != nil {
				continue
			}
			child, ferr := shared[op.Reg].Filter(fo)
			if ferr == nil && child != nil {
				shared = append(shared, child)
			}
		case "loadcfg":
			c, err := lint.NewConfigFromString(p.Cfgs[op.Cfg].Text)
			if err == nil {
				cfgs[op.Cfg] = &c
			}
		case "setcfg":
			if op.Cfg >= 0 && cfgs[op.Cfg] != nil && op.Reg < len(shared) {
				shared[op.Reg].SetConfiguration(*cfgs[op.Cfg])
			}
		}
	}
	log.Add("setup: %d shared registries", len(shared))
	schedSharedOpts = map[string]*lint.FilterOptions{}
	for _, ops := range p.Clients {
		for i := range ops {
			if ops[i].K == "filter" && strings.Contains(ops[i].Note, "sharedopts") && ops[i].Opts != nil {
				k := mustJSON(ops[i].Opts)
				if _, ok := schedSharedOpts[k]; !ok {
					if fo, err := ops[i].Opts.real(); err == nil {
						schedSharedOpts[k] = &fo
					}
				}
			}
		}
	}

	K := len(p.Clients)
	sc := p.Schedule
	if sc == nil {
		sc = &Schedule{Strategy: "serial"}
	}
	if mode == "serial" {
		sc = &Schedule{Strategy: "serial"}
	}
	s := newSched(K, sc, log)
	curSched = s
	free := strings.HasPrefix(mode, "free")
	if free {
		atomic.StoreInt32(&s.free, 1)
	}
	clients := make([]*clientState, K)
	var wg sync.WaitGroup
	startGate := make(chan struct{}) // free-running clients leave the gate together
	for c := 0; c < K; c++ {
		cs := &clientState{id: c, ops: p.Clients[c], objs: map[int]*Parsed{}}
		clients[c] = cs
		var view []lint.Registry
		for _, r := range shared {
			if free {
				view = append(view, r)
			} else {
				view = append(view, wrapReg(r, c, s))
			}
		}
		wg.Add(1)
		go func(c int, cs *clientState, view []lint.Registry) {
			defer wg.Done()
			s.gids[c] = getg()
			if !free {
				<-s.wake[c]
			} else {
				<-startGate
			}
			for i := range cs.ops {
				if !free {
					s.Yield(c, "op:"+cs.ops[i].K)
				}
				r := execClientOp(p, view, cs, &cs.ops[i], full)
				cs.out = append(cs.out, r)
				atomic.AddInt64(&s.opsDone[c], 1)
			}
			s.Finish(c)
		}(c, cs, view)
	}
	if mode == "freejit" {
		if !fineGrainBuild {
			return &RunResult{Seed: p.Seed, Engine: "sched", Prop: p.Prop, Counters: counters{}, HarnessErr: "schedule perturbation needs the instrumented build"}
		}
		installJitter(p.Seed, uint64(pickJitterRate(p.Seed)))
		defer uninstallFineGrain()
		res.Counters.inc("jitter_runs")
	}
	close(startGate)
	if !free && strings.HasPrefix(mode, "fg") {
		if !fineGrainBuild {
			return &RunResult{Seed: p.Seed, Engine: "sched", Prop: p.Prop, Counters: counters{}, HarnessErr: "fine-grain mode needs the zsim.fg build"}
		}
		s.maxSteps = 1500000
		if p.Tier == "thorough" {
			s.maxSteps = 4000000
		}
		installFineGrain(s)
		defer uninstallFineGrain()
		res.Counters.inc("finegrain_runs")
		if sc.Stmt {
			res.Counters.inc("statement_grain_runs")
		}
	}
	if !free {
		first := 0
		if sc.Strategy == "explicit" && len(sc.Explicit) > 0 && sc.Explicit[0].C == -1 {
			first = sc.Explicit[0].To
			s.ei = 1
		} else if sc.Strategy != "serial" && sc.Strategy != "explicit" {
			first = s.rng.Intn(K)
		}
		s.trace = append(s.trace, Switch{C: -1, K: 0, To: first})
		s.cur = first
		s.wake[first] <- struct{}{}
	}
	// ---- bounded liveness: progress watchdog
	deadlock := ""
	func() {
		last := int64(-1)
		stall := 0
		freeLast, freeSince := int64(-1), time.Now()
		tick := time.NewTicker(500 * time.Millisecond)
		defer tick.Stop()
		for {
			select {
			case <-s.allDone:
				return
			case <-tick.C:
				cur := atomic.LoadInt64(&s.steps)
				if free {
					// progress, not wall time: a loaded machine makes a run slow, not blocked
					var sum int64
					for k := range s.opsDone {
						sum += atomic.LoadInt64(&s.opsDone[k])
					}
					if sum != freeLast {
						freeLast, freeSince = sum, time.Now()
					}
					if time.Since(freeSince) > 120*time.Second {
						deadlock = "free-running clients completed no operation for 120 s"
						return
					}
					continue
				}
				if cur == last {
					stall++
				} else {
					stall, last = 0, cur
				}
				if stall == 20 { // 10 s without a scheduler step: release everybody
					if atomic.LoadInt32(&s.stalled) > 0 {
						if site := zlintLockBlocked(); site != "" {
							s.mu.Lock()
							s.stallViolation = site
							s.mu.Unlock()
						}
					}
					log.Add("watchdog: no scheduler step for 10 s, switching to free-running mode")
					res.Counters.inc("watchdog_free_fallback")
					atomic.StoreInt32(&s.free, 1)
					for c := 0; c < K; c++ {
						select {
						case s.wake[c] <- struct{}{}:
						default:
						}
					}
				}
				if stall >= 20 {
					// released (by this watchdog or by the step budget): blocked means no operation completes any more
					var sum int64
					for k := range s.opsDone {
						sum += atomic.LoadInt64(&s.opsDone[k])
					}
					if sum != freeLast {
						freeLast, freeSince = sum, time.Now()
					}
					if time.Since(freeSince) > 120*time.Second {
						deadlock = "clients completed no operation for 120 s after being released"
						return
					}
				}
			}
		}
	}()
	if deadlock == "" {
		wg.Wait()
	}
	log.Add("clients done: steps=%d switches=%d", s.steps, s.switches)

	res.Steps = int(s.steps)
	for c := 0; c < K; c++ {
		res.Ops += len(clients[c].out)
	}
	if s.budgetHit {
		res.Counters.inc("step_budget_reached_clients_released")
	}
	if mode == "freejit" {
		sites, fired := jitterStats()
		res.Counters.add("jitter_sites_passed", int(sites))
		res.Counters.add("fault/jitter_gosched_or_sleep", int(fired))
	}
	res.Counters.add("yields", int(s.steps))
	if n := atomic.LoadInt64(&s.foreignYields); n > 0 {
		res.Counters.add("yield_sites_passed_by_goroutines_of_the_code_under_test", int(n))
	}
	res.Counters.add("preempt_switches", s.switches)
	res.Counters.add("preempt_inside_lint_of_both", s.insideSwitch)
	res.Counters.inc("strategy_" + sc.Strategy)
	if free {
		res.Counters.inc("free_running_workloads")
	}
	for _, c := range clients {
		for i, r := range c.out {
			log.Add("c%d op %d %s -> %s", c.id, i, c.ops[i].K, r.Hash)
		}
	}
	if deadlock != "" {
		res.Violations = append(res.Violations, Violation{Property: "C10", Class: "deadlock", Detail: deadlock})
	}
	if s.stallViolation != "" {
		res.Violations = append(res.Violations, Violation{Property: "C10", Class: "blocked_behind_stalled_writer", Site: s.stallViolation,
			Detail: "while one client's WriteJSON sat in its (stalled) writer, no other client made any progress for 10 s and one of them was waiting for a lock in " + s.stallViolation + ": a registry lock is held across the caller's writer"})
	}
	res.Counters.add("fault/writer_stall", int(stallCount))

	if mode == "serial" {
		// the twin: hand the results back
		out := schedOut{}
		for _, c := range clients {
			out.Results = append(out.Results, c.out)
		}
		res.Sample = out
		res.TraceHash = log.Hash()
		if keepLog {
			res.Log = log.lines
		}
		return res
	}

	// ---- oracle: the serial twin in a fresh process
	if deadlock == "" {
		twin, err := runTwin(p, false)
		if err != nil {
			res.HarnessErr = "serial twin: " + err.Error()
		} else {
			mismatch := false
			for c := 0; c < K; c++ {
				for i := range clients[c].out {
					res.Checks++
					if i >= len(twin.Results[c]) || clients[c].out[i].Hash != twin.Results[c][i].Hash {
						mismatch = true
					}
				}
			}
			if mismatch {
				res.Violations = append(res.Violations, diffAgainstTwin(p, clients, mode)...)
			}
		}
	}
	// measures
	res.Distinct["schedules"] = []string{shortHash(mustJSON(s.trace))}
	res.Distinct["adjacent_pairs"] = sortedKeys(s.pairs)
	if s.insideSwitch > 0 {
		res.Distinct["nontrivial"] = []string{shortHash(fmt.Sprint(p.Seed) + mustJSON(s.trace))}
		res.Nontrivial = 1
	}
	if free {
		res.Distinct["free_workloads"] = []string{fmt.Sprint(p.Seed)}
	}
	if len(res.Violations) > 0 && !free {
		// hand the explicit schedule back so that the replay file carries it and the minimiser can edit it
		p.Schedule = &Schedule{Strategy: "explicit", Explicit: s.trace}
	}
	res.TraceHash = log.Hash()
	if keepLog {
		res.Log = log.lines
	}
	return res
}

// runTwin executes the plan with the serial schedule in a fresh process.
func runTwin(p *Plan, full bool) (*schedOut, error) {
	dir := filepath.Join(verifRoot(), "work", "tmp")
	os.MkdirAll(dir, 0o755)
	f := filepath.Join(dir, fmt.Sprintf("twin-%d-%d.json", os.Getpid(), time.Now().UnixNano()))
	q := p.clone()
	q.Violation = nil
	if err := writePlan(f, q); err != nil {
		return nil, err
	}
	defer os.Remove(f)
	exe := filepath.Join(verifRoot(), "bin", "zsim") // the twin never runs under the race detector
	if _, err := os.Stat(exe); err != nil {
		exe, _ = os.Executable()
	}
	cmd := exec.Command(exe, "run", "--engine", "sched", "--prop", p.Prop, "--seed", fmt.Sprint(p.Seed), "--tier", p.Tier, "--plan", f, "--mode", "serial")
	env := os.Environ()
	if full {
		env = append(env, "ZSIM_SCHED_FULL=1")
	}
	cmd.Env = env
	var out, errb bytes.Buffer
	cmd.Stdout, cmd.Stderr = &out, &errb
	if err := cmd.Run(); err != nil {
		return nil, fmt.Errorf("%v: %s", err, clip(errb.String(), 500))
	}
	var rr struct {
		Sample schedOut `json:"sample"`
	}
	if err := jsonUnmarshal(out.Bytes(), &rr); err != nil {
		return nil, err
	}
	return &rr.Sample, nil
}

// diffAgainstTwin names what differs: re-runs the twin with full results and
// compares the concurrent results lint by lint. The concurrent side's full
// results are recomputed from the stored canonical sets when available.
func diffAgainstTwin(p *Plan, clients []*clientState, mode string) []Violation {
	twin, err := runTwin(p, true)
	var out []Violation
	if err != nil {
		return []Violation{{Property: "C10", Class: "result_mismatch", Detail: "concurrent results differ from the serial twin (details unavailable: " + err.Error() + ")"}}
	}
	seen := map[string]bool{}
	for c, cs := range clients {
		for i, r := range cs.out {
			if i >= len(twin.Results[c]) {
				continue
			}
			t := twin.Results[c][i]
			if r.Hash == t.Hash {
				continue
			}
			op := cs.ops[i]
			v := Violation{Property: "C10", Class: "result_mismatch", Op: i, Site: op.K,
				Detail: fmt.Sprintf("client %d op %d (%s on registry %d) returned something else than the same call made alone (serial twin)", c, i, op.K, op.Reg)}
			if strings.HasPrefix(r.Text, "panic:") {
				v.Class = "panic"
				v.Detail = fmt.Sprintf("client %d op %d (%s) panicked under concurrency: %s", c, i, op.K, r.Text)
			}
			if op.K == "lint" && t.Canon != nil && r.Canon != nil {
				for _, n := range sortedKeys(t.Canon.Results) {
					if r.Canon.Results[n] != t.Canon.Results[n] {
						v.Lint = n
						v.Expected = t.Canon.Results[n].String()
						v.Got = r.Canon.Results[n].String()
						break
					}
				}
				if v.Lint == "" {
					v.Expected, v.Got = fmt.Sprint(t.Canon.Flags, len(t.Canon.Results)), fmt.Sprint(r.Canon.Flags, len(r.Canon.Results))
				}
			} else {
				v.Expected, v.Got = t.Text, r.Text
			}
			if !seen[v.Sig()] {
				seen[v.Sig()] = true
				out = append(out, v)
			}
		}
	}
	if len(out) == 0 {
		out = append(out, Violation{Property: "C10", Class: "result_mismatch", Detail: "concurrent results differ from the serial twin"})
	}
	return out
}

// goid: the number of the calling goroutine (from the header of its stack trace).
func goid() uint64 {
	var buf [40]byte
	n := runtime.Stack(buf[:], false)
	// "goroutine 123 ["
	var id uint64
	for _, ch := range buf[10:n] {
		if ch < '0' || ch > '9' {
			break
		}
		id = id*10 + uint64(ch-'0')
	}
	return id
}

// pickJitterRate: how many sites per thousand perturb the running goroutine (drawn from the run's seed).
func pickJitterRate(seed uint64) int {
	return []int{1, 3, 10, 30}[splitmix64(seed^0x6a69747465)%4]
}
