package main

// The driver: one check = batches of seeded runs, each in a fresh worker
// process, fanned out over the cores; results are aggregated into the
// evidence file, violations are minimised, replay-verified and reported.

import (
	"bytes"
	"context"
	"encoding/json"
	"flag"
	"fmt"
	"os"
	"os/exec"
	"path/filepath"
	"runtime"
	"sort"
	"strings"
	"sync"
	"syscall"
	"time"
)

type batchSpec struct {
	Label     string
	Engine    string
	Prop      string // generator profile
	Runs      int
	Mode      string
	Env       []string
	Audit     bool
	Race      bool // use the -race build
	MaxProcs  int
	Strace    bool
	Special   string // env | audit : driver-side comparisons on top of worker results
	FaultFree bool
	EnvV      *envVariant
	Share     float64 // share of the check's time budget (default: equal shares)
	Bin       string  // "" = zsim, "fg" = the fine-grain build (zsim.fg)
}

func jsonRoundTrip(in any, out any) error {
	b, err := json.Marshal(in)
	if err != nil {
		return err
	}
	return json.Unmarshal(b, out)
}

type batchAgg struct {
	Spec       batchSpec
	Runs       int
	Steps      int
	Ops        int
	Checks     int
	Counters   counters
	Distinct   map[string]map[string]bool
	Violations []foundViolation
	Samples    []any
	FirstSeed  uint64
	WallS      float64
	Hashes     map[uint64]string
	Modes      map[uint64]string
	HarnessErr []string
}

type foundViolation struct {
	V    Violation
	Plan *Plan
	Seed uint64
	Spec batchSpec
}

func workers() int {
	n := runtime.NumCPU()
	if n > 16 {
		n = 16
	}
	if v := os.Getenv("ZSIM_WORKERS"); v != "" {
		fmt.Sscan(v, &n)
	}
	if n < 1 {
		n = 1
	}
	return n
}

func selfExe(race bool) string {
	if race {
		return filepath.Join(verifRoot(), "bin", "zsim.race")
	}
	exe, err := os.Executable()
	if err != nil {
		die(2, "no executable: %v", err)
	}
	return exe
}

// spawnRun runs one worker process and decodes its result.
func spawnRun(spec batchSpec, tier string, seed uint64, planFile string, keepLog bool, timeout time.Duration) (*RunResult, string, error) {
	args := []string{"run", "--engine", spec.Engine, "--prop", spec.Prop, "--seed", fmt.Sprint(seed), "--tier", tier}
	if planFile != "" {
		args = append(args, "--plan", planFile)
	}
	if keepLog {
		args = append(args, "--log")
	}
	if spec.Audit {
		args = append(args, "--audit")
	}
	if spec.Mode != "" {
		args = append(args, "--mode", spec.Mode)
	}
	ctx, cancel := context.WithTimeout(context.Background(), timeout)
	defer cancel()
	exe := selfExe(spec.Race)
	if spec.Bin == "fg" {
		exe = filepath.Join(verifRoot(), "bin", "zsim.fg")
	}
	if spec.Bin == "fgrace" {
		exe = filepath.Join(verifRoot(), "bin", "zsim.fg.race")
	}
	var cmd *exec.Cmd
	var straceOut string
	if spec.Strace {
		straceOut = filepath.Join(verifRoot(), "work", "tmp", fmt.Sprintf("strace-%d-%d.txt", os.Getpid(), seed))
		os.MkdirAll(filepath.Dir(straceOut), 0o755)
		sargs := append([]string{"-f", "-qq", "-o", straceOut, "-e", "trace=" + auditSyscalls, exe}, args...)
		cmd = exec.CommandContext(ctx, "strace", sargs...)
	} else {
		cmd = exec.CommandContext(ctx, exe, args...)
	}
	env := append(os.Environ(), "ZSIM_BINHASH="+binHashOf(exe))
	if spec.Bin == "fg" || spec.Bin == "fgrace" {
		plain := filepath.Join(verifRoot(), "bin", "zsim")
		env = append(env, "ZSIM_REF_EXE="+plain, "ZSIM_REF_BINHASH="+binHashOf(plain))
	}
	if spec.MaxProcs > 0 {
		env = append(env, fmt.Sprintf("GOMAXPROCS=%d", spec.MaxProcs))
	}
	if spec.Race {
		env = append(env, "GORACE=halt_on_error=1 exitcode=66")
	}
	env = append(env, spec.Env...)
	if spec.EnvV != nil {
		env = applyEnv(env, *spec.EnvV)
		cmd.Dir = spec.EnvV.Dir
	}
	cmd.Env = env
	// the worker and whatever it spawns (reference processes, the CLI) form one process group,
	// so that the watchdog leaves nothing behind
	cmd.SysProcAttr = &syscall.SysProcAttr{Setpgid: true}
	cmd.Cancel = func() error {
		if cmd.Process != nil {
			return syscall.Kill(-cmd.Process.Pid, syscall.SIGKILL)
		}
		return nil
	}
	var out, errb bytes.Buffer
	cmd.Stdout, cmd.Stderr = &out, &errb
	err := cmd.Run()
	if ctx.Err() == context.DeadlineExceeded {
		// was the worker blocked or busy? (processor time of the worker itself; its children are not counted)
		busy := ""
		if ps := cmd.ProcessState; ps != nil {
			cpu := ps.UserTime() + ps.SystemTime()
			if cpu > timeout/4 {
				busy = fmt.Sprintf(" busy (%.0f s of processor time)", cpu.Seconds())
			}
		}
		return nil, errb.String(), fmt.Errorf("watchdog: worker exceeded %v%s", timeout, busy)
	}
	if err != nil {
		return nil, errb.String(), fmt.Errorf("worker failed: %v", err)
	}
	var res RunResult
	if jerr := json.Unmarshal(bytes.TrimSpace(out.Bytes()), &res); jerr != nil {
		return nil, errb.String(), fmt.Errorf("worker output not JSON: %v: %s", jerr, clip(out.String(), 300))
	}
	if spec.Strace {
		res.Counters["strace_file"] = 1
		res.Sample = map[string]any{"plan": res.Sample, "strace_file": straceOut}
	}
	return &res, errb.String(), nil
}

var binHashCache sync.Map

func binHashOf(exe string) string {
	if v, ok := binHashCache.Load(exe); ok {
		return v.(string)
	}
	b, err := os.ReadFile(exe)
	if err != nil {
		die(2, "cannot read %s: %v", exe, err)
	}
	h := sha(b)[:20]
	binHashCache.Store(exe, h)
	return h
}

type crashHandler func(spec batchSpec, seed uint64, stderr string, err error) *foundViolation

// runBatch executes the runs of one batch over the worker pool.
func runBatch(spec batchSpec, tier string, batch uint64, deadline time.Time, onCrash crashHandler) *batchAgg {
	agg := &batchAgg{Spec: spec, Counters: counters{}, Distinct: map[string]map[string]bool{}, Hashes: map[uint64]string{}}
	start := time.Now()
	type item struct {
		i    int
		seed uint64
	}
	jobs := make(chan item)
	var mu sync.Mutex
	var wg sync.WaitGroup
	perRun := 300 * time.Second
	if tier == "quick" {
		perRun = 150 * time.Second
	}
	for w := 0; w < workers(); w++ {
		wg.Add(1)
		go func() {
			defer wg.Done()
			for it := range jobs {
				rs := spec
				if strings.Contains(rs.Mode, "%d") {
					rs.Mode = fmt.Sprintf(rs.Mode, it.i)
				}
				res, stderr, err := spawnRun(rs, tier, it.seed, "", false, perRun)
				var hangV *foundViolation
				if err != nil && strings.Contains(err.Error(), "watchdog") {
					// bounded liveness: a run that does not end is re-run twice in fresh processes with a
					// shorter limit; reproduced every time => a hang of real code (zlint has no retry loop
					// and a full lint takes ~1 ms), otherwise harness trouble
					hung := 0
					for k := 0; k < 2; k++ {
						// (a worker that was busy when the limit struck is a slow run on a loaded machine - trouble of
						// the harness, exit 2; a worker that sat idle is blocked. Calls that spin are found by the
						// watchdogs inside the worker: per call, per scheduler step.)
						// (SCHED only; the sequential engines have no long runs, and a rule that spins inside one of the
						// harness's own direct calls is found here and nowhere else)
						if _, _, e2 := spawnRun(rs, tier, it.seed, "", false, 90*time.Second); e2 != nil && strings.Contains(e2.Error(), "watchdog") && !(rs.Engine == "sched" && strings.Contains(e2.Error(), "busy")) {
							hung++
						}
					}
					if hung == 2 {
						prop, class := "C01", "hang"
						if rs.Engine == "sched" {
							prop, class = "C10", "deadlock"
						}
						plan := &Plan{Engine: rs.Engine, Prop: rs.Prop, Seed: it.seed, Tier: tier, Knobs: map[string]any{"worker_mode": rs.Mode, "race_build": rs.Race, "gomaxprocs": rs.MaxProcs},
							Note: "seed-only replay file: the run does not terminate; the plan is regenerated from the seed"}
						hangV = &foundViolation{V: Violation{Property: prop, Class: class, Site: rs.Engine,
							Detail: fmt.Sprintf("the run of seed %d did not finish within %v and again not within 90 s in two further fresh processes (a full lint takes about a millisecond)", it.seed, perRun)}, Plan: plan, Seed: it.seed, Spec: rs}
					}
				}
				mu.Lock()
				if hangV != nil {
					agg.Violations = append(agg.Violations, *hangV)
					agg.Runs++
					mu.Unlock()
					continue
				}
				if err != nil {
					if onCrash != nil {
						if fv := onCrash(rs, it.seed, stderr, err); fv != nil {
							agg.Violations = append(agg.Violations, *fv)
							agg.Runs++
							mu.Unlock()
							continue
						}
					}
					agg.HarnessErr = append(agg.HarnessErr, fmt.Sprintf("seed %d: %v: %s", it.seed, err, clip(stderr, 600)))
					mu.Unlock()
					continue
				}
				agg.Runs++
				agg.Steps += res.Steps
				agg.Ops += res.Ops
				agg.Checks += res.Checks
				agg.Hashes[it.seed] = res.TraceHash
				if rs.Mode != spec.Mode {
					if agg.Modes == nil {
						agg.Modes = map[uint64]string{}
					}
					agg.Modes[it.seed] = rs.Mode
				}
				for k, v := range res.Counters {
					agg.Counters[k] += v
				}
				for m, hs := range res.Distinct {
					if agg.Distinct[m] == nil {
						agg.Distinct[m] = map[string]bool{}
					}
					for _, x := range hs {
						agg.Distinct[m][x] = true
					}
				}
				for _, v := range res.Violations {
					agg.Violations = append(agg.Violations, foundViolation{V: v, Plan: res.Plan, Seed: it.seed, Spec: spec})
				}
				if len(agg.Samples) < 2 && res.Sample != nil {
					agg.Samples = append(agg.Samples, res.Sample)
				}
				mu.Unlock()
			}
		}()
	}
	for i := 0; i < spec.Runs; i++ {
		if time.Now().After(deadline) {
			break
		}
		s := runSeed(batch, spec.Engine+spec.Mode, spec.Prop+"/"+spec.Label, i)
		if i == 0 {
			agg.FirstSeed = s
		}
		jobs <- item{i, s}
	}
	close(jobs)
	wg.Wait()
	agg.WallS = time.Since(start).Seconds()
	return agg
}

// recheckDeterminism re-runs a share of the seeds and compares trace hashes.
func recheckDeterminism(agg *batchAgg, tier string) []string {
	var seeds []uint64
	for s := range agg.Hashes {
		seeds = append(seeds, s)
	}
	sort.Slice(seeds, func(i, j int) bool { return seeds[i] < seeds[j] })
	n := len(seeds) / 50
	if n < 2 {
		n = 2
	}
	if n > len(seeds) {
		n = len(seeds)
	}
	var bad []string
	var mu sync.Mutex
	var wg sync.WaitGroup
	sem := make(chan struct{}, workers())
	for k := 0; k < n; k++ {
		s := seeds[(k*7919)%len(seeds)]
		wg.Add(1)
		sem <- struct{}{}
		go func() {
			defer wg.Done()
			defer func() { <-sem }()
			rs := agg.Spec
			if m, ok := agg.Modes[s]; ok {
				rs.Mode = m
			}
			res, _, err := spawnRun(rs, tier, s, "", false, 300*time.Second)
			mu.Lock()
			defer mu.Unlock()
			if err != nil {
				bad = append(bad, fmt.Sprintf("seed %d: re-run failed: %v", s, err))
			} else if res.TraceHash != agg.Hashes[s] {
				bad = append(bad, fmt.Sprintf("seed %d: trace hash %s then %s", s, agg.Hashes[s], res.TraceHash))
			}
		}()
	}
	wg.Wait()
	agg.Counters["determinism_reruns"] += n
	return bad
}

// ---------------------------------------------------------------- known findings

type knownFinding struct {
	Property string `json:"property"`
	ID       string `json:"id"`
	Status   string `json:"status"` // open | fixed
	Match    struct {
		Class string `json:"class"`
		Lint  string `json:"lint,omitempty"`
		Site  string `json:"site,omitempty"`
	} `json:"match"`
	What   string `json:"what"`
	Commit string `json:"commit,omitempty"`
}

func loadKnownFindings() []knownFinding {
	b, err := os.ReadFile(filepath.Join(envOr("ZSIM_SRC", verifRoot()), "known_findings.json"))
	if err != nil {
		return nil
	}
	var f struct {
		Findings []knownFinding `json:"findings"`
	}
	if err := json.Unmarshal(b, &f); err != nil {
		die(2, "known_findings.json is not valid: %v", err)
	}
	return f.Findings
}

func matchKnown(kfs []knownFinding, v Violation) *knownFinding {
	for i := range kfs {
		k := &kfs[i]
		if k.Status != "open" || k.Property != v.Property {
			continue
		}
		if k.Match.Class != "" && k.Match.Class != v.Class {
			continue
		}
		if k.Match.Lint != "" && k.Match.Lint != v.Lint {
			continue
		}
		if k.Match.Site != "" && k.Match.Site != v.Site {
			continue
		}
		return k
	}
	return nil
}

// ---------------------------------------------------------------- drive

type checkPlan struct {
	Prop       string
	Level      string
	Batches    []batchSpec
	Rule       string
	Measure    string // name of the Distinct set that counts as distinct_nontrivial
	Assumption []string
	Components map[string][]string
	BudgetS    int
}

func driveMain(args []string) {
	fs := flag.NewFlagSet("drive", flag.ExitOnError)
	prop := fs.String("prop", "", "property id")
	tier := fs.String("tier", envOr("VERIF_TIER", "quick"), "quick|thorough")
	scale := fs.Float64("scale", 1, "multiply run counts")
	only := fs.String("only", "", "experiments: run only the batches whose label contains this text")
	fs.Parse(args)
	if *prop == "" {
		die(2, "drive: --prop required")
	}
	if *tier != "quick" && *tier != "thorough" {
		*tier = "quick"
	}
	start := time.Now()
	seed := batchSeed()
	cp := checkPlanFor(*prop, *tier)
	if cp == nil {
		die(2, "no check is registered for %s", *prop)
	}
	pruneOracleCache()
	os.MkdirAll(filepath.Join(verifRoot(), "replays"), 0o755)
	os.MkdirAll(filepath.Join(verifRoot(), "evidence"), 0o755)
	fmt.Printf("zsim: check %s tier=%s VERIF_SEED=%d workers=%d\n", *prop, *tier, seed, workers())
	deadline := start.Add(time.Duration(cp.BudgetS) * time.Second)

	var aggs []*batchAgg
	var harness []string
	shareLeft := 0.0
	for _, b := range cp.Batches {
		if b.Share <= 0 {
			b.Share = 1
		}
		shareLeft += b.Share
	}
	for _, b := range cp.Batches {
		if b.Share <= 0 {
			b.Share = 1
		}
		// every batch gets its share of what is left of the budget; unused time rolls over
		left := time.Until(start.Add(time.Duration(cp.BudgetS) * time.Second))
		if left < 0 {
			left = 0
		}
		deadline = time.Now().Add(time.Duration(float64(left) * b.Share / shareLeft))
		shareLeft -= b.Share
		if b.Bin == "fgrace" && b.Runs == 0 && os.Getenv("ZSIM_JITTER") != "" {
			b.Runs = 24 // experiments: the perturbation batch in the quick tier
		}
		if b.Runs == 0 && !(b.Bin == "fg" && os.Getenv("ZSIM_FINEGRAIN") != "") {
			continue // batch not part of this tier
		}
		if *only != "" && !strings.Contains(b.Label, *only) {
			continue
		}
		if b.Bin == "fg" && b.Runs == 0 {
			b.Runs = 500
		}
		b.Runs = int(float64(b.Runs) * *scale)
		if b.Runs < 1 {
			b.Runs = 1
		}
		var agg *batchAgg
		switch b.Special {
		case "env":
			agg = runEnvBatch(b, *tier, seed, deadline)
		case "audit":
			agg = runAuditBatch(b, *tier, seed, deadline)
		default:
			agg = runBatch(b, *tier, seed, deadline, crashHandlerFor(b))
		}
		aggs = append(aggs, agg)
		harness = append(harness, agg.HarnessErr...)
		fmt.Printf("zsim: batch %-22s runs=%d steps=%d checks=%d violations=%d wall=%.1fs\n", b.Label, agg.Runs, agg.Steps, agg.Checks, len(agg.Violations), agg.WallS)
		if b.Special == "" && !b.Race && (b.Bin == "" || b.Mode == "clock" || b.Mode == "panicinj") && len(agg.Hashes) > 0 {
			if bad := recheckDeterminism(agg, *tier); len(bad) > 0 {
				if b.Mode == "panicinj" {
					// the injection point is drawn from the statements the call executes; where Go map iteration
					// inside the code under test decides which statements run, a re-run may pick another one
					agg.Counters.add("recheck_other_injection_point", len(bad))
					fmt.Printf("zsim: note: %d re-run(s) of batch %s chose another injection point (map iteration in the code under test)\n", len(bad), b.Label)
				} else {
					harness = append(harness, "harness nondeterministic: "+strings.Join(bad, "; "))
				}
			}
		}
	}

	// ---- violations of this property; everything else is a cross observation
	kfs := loadKnownFindings()
	var mine []foundViolation
	cross := map[string]int{}
	for _, a := range aggs {
		for _, fv := range a.Violations {
			if fv.V.Property == *prop {
				mine = append(mine, fv)
			} else {
				cross[fv.V.Property+"/"+fv.V.Class+"/"+fv.V.Lint]++
			}
		}
	}
	bySig := map[string][]foundViolation{}
	var sigs []string
	for _, fv := range mine {
		s := fv.V.Sig()
		if _, ok := bySig[s]; !ok {
			sigs = append(sigs, s)
		}
		bySig[s] = append(bySig[s], fv)
	}
	sort.Strings(sigs)
	nViol := 0
	knownSeen := map[string]bool{}
	var violLines []string
	for _, s := range sigs {
		fv := bySig[s][0]
		// prefer the occurrence with the smallest plan
		for _, x := range bySig[s] {
			if x.Plan != nil && fv.Plan != nil && planSize(x.Plan) < planSize(fv.Plan) {
				fv = x
			}
		}
		if k := matchKnown(kfs, fv.V); k != nil {
			if !knownSeen[k.ID] {
				knownSeen[k.ID] = true
				fmt.Printf("KNOWN-FINDING: property=%s %s [%s] (%d occurrences this run)\n", *prop, k.What, k.ID, len(bySig[s]))
			}
			continue
		}
		nViol++
		if nViol > 8 {
			continue
		}
		path := reportViolation(fv, *tier, len(bySig[s]))
		violLines = append(violLines, fmt.Sprintf("VIOLATION property=%s replay=%s", *prop, path))
	}

	wall := time.Since(start).Seconds()
	writeEvidence(cp, *tier, seed, aggs, nViol, cross, wall, harness)
	for _, l := range violLines {
		fmt.Println(l)
	}
	if len(harness) > 0 && nViol == 0 {
		for _, hmsg := range harness {
			fmt.Fprintln(os.Stderr, "zsim: HARNESS:", clip(hmsg, 1500))
		}
		os.Exit(2)
	}
	if nViol > 0 {
		os.Exit(1)
	}
	fmt.Printf("zsim: %s held on everything explored (%.1fs)\n", *prop, wall)
}

func planSize(p *Plan) int {
	n := len(p.Ops) + len(p.Steps)
	for _, c := range p.Clients {
		n += len(c)
	}
	return n
}

// reportViolation minimises, replay-verifies and writes the replay file.
func reportViolation(fv foundViolation, tier string, occurrences int) string {
	dir := filepath.Join(verifRoot(), "replays")
	name := fmt.Sprintf("%s-%d-%s.json", fv.V.Property, fv.Seed, shortHash(fv.V.Sig())[:8])
	path := filepath.Join(dir, name)
	plan := fv.Plan
	if plan == nil {
		plan = &Plan{Engine: fv.Spec.Engine, Prop: fv.Spec.Prop, Seed: fv.Seed, Tier: tier, Note: "no plan was returned by the worker; replay regenerates it from the seed"}
	}
	v := fv.V
	plan.Violation = &v
	fmt.Printf("zsim: violation %s class=%s lint=%s site=%s (seed %d, %d occurrences): %s\n", v.Property, v.Class, v.Lint, v.Site, fv.Seed, occurrences, clip(v.Detail, 300))
	if v.Expected != "" || v.Got != "" {
		fmt.Printf("zsim:   expected %s\nzsim:   got      %s\n", clip(v.Expected, 300), clip(v.Got, 300))
	}
	budget := 60 * time.Second
	if tier == "thorough" {
		budget = 10 * time.Minute
	}
	if fv.Plan != nil && planSize(fv.Plan) > 0 {
		min := minimise(fv.Plan, fv.V, fv.Spec, tier, budget)
		if min != nil {
			min.Violation = &v
			min.Minimised = true
			// the minimised file must reproduce in a fresh process, else fall back
			if reproduces(min, fv.V, fv.Spec, tier) {
				plan = min
				fmt.Printf("zsim:   minimised from %d to %d steps\n", planSize(fv.Plan), planSize(min))
			}
		}
	}
	if err := writePlan(path, plan); err != nil {
		die(2, "cannot write replay file: %v", err)
	}
	return path
}

// reproduces runs the plan in a fresh process and reports whether a violation
// with the same signature shows up.
func reproduces(p *Plan, v Violation, spec batchSpec, tier string) bool {
	tmp := filepath.Join(verifRoot(), "work", "tmp", fmt.Sprintf("min-%d-%d.json", os.Getpid(), time.Now().UnixNano()))
	os.MkdirAll(filepath.Dir(tmp), 0o755)
	defer os.Remove(tmp)
	if err := writePlan(tmp, p); err != nil {
		return false
	}
	// up to three fresh processes: a violation that depends on something the
	// simulator cannot seed (Go map iteration order inside the code under test)
	// is still a real observation when it shows up in any of them
	for attempt := 0; attempt < 3; attempt++ {
		res, stderr, err := spawnRun(spec, tier, p.Seed, tmp, false, 120*time.Second)
		if err != nil {
			if h := crashHandlerFor(spec); h != nil {
				if fv := h(spec, p.Seed, stderr, err); fv != nil && fv.V.Sig() == v.Sig() {
					return true
				}
			}
			continue
		}
		for _, x := range res.Violations {
			if x.Sig() == v.Sig() {
				return true
			}
		}
	}
	return false
}

func replayMain(args []string) {
	if len(args) < 1 {
		die(2, "usage: zsim replay <file>")
	}
	p, err := readPlan(args[0])
	if err != nil {
		die(2, "cannot read replay file: %v", err)
	}
	if replaySpecial(p, args[0]) {
		return
	}
	spec := batchSpec{Engine: p.Engine, Prop: p.Prop}
	if p.Knobs != nil {
		if a, ok := p.Knobs["audit"].(bool); ok {
			spec.Audit = a
		}
		if m, ok := p.Knobs["worker_mode"].(string); ok {
			spec.Mode = m
		}
		if r, ok := p.Knobs["race_build"].(bool); ok {
			spec.Race = r
		}
		wm, _ := p.Knobs["worker_mode"].(string)
		if fg, ok := p.Knobs["finegrain"].(bool); (ok && fg) || strings.HasPrefix(wm, "fg") || wm == "clock" || wm == "panicinj" {
			spec.Bin = "fg"
		}
		if mp, ok := p.Knobs["gomaxprocs"].(float64); ok {
			spec.MaxProcs = int(mp)
		}
	}
	file := args[0]
	if len(p.Ops) == 0 && len(p.Clients) == 0 && len(p.Steps) == 0 {
		file = "" // seed-only replay file: the worker regenerates the plan
	}
	limit := 600 * time.Second
	if p.Violation != nil && (p.Violation.Class == "hang" || p.Violation.Class == "deadlock") {
		limit = 120 * time.Second
	}
	res, stderr, err := spawnRun(spec, p.Tier, p.Seed, file, true, limit)
	if err != nil && strings.Contains(err.Error(), "watchdog") && p.Violation != nil && (p.Violation.Class == "hang" || p.Violation.Class == "deadlock") {
		fmt.Printf("replay: the run did not finish within %v\n", limit)
		fmt.Printf("VIOLATION property=%s replay=%s\n", p.Violation.Property, args[0])
		os.Exit(1)
	}
	if err != nil {
		if h := crashHandlerFor(spec); h != nil {
			if fv := h(spec, p.Seed, stderr, err); fv != nil {
				fmt.Printf("replay: %s %s: %s\n", fv.V.Property, fv.V.Class, clip(fv.V.Detail, 2000))
				if p.Violation != nil && fv.V.Sig() == p.Violation.Sig() {
					fmt.Printf("VIOLATION property=%s replay=%s\n", fv.V.Property, args[0])
					os.Exit(1)
				}
				os.Exit(1)
			}
		}
		die(2, "replay: %v: %s", err, clip(stderr, 2000))
	}
	for _, l := range res.Log {
		fmt.Println(l)
	}
	fmt.Printf("replay: trace hash %s, %d violations\n", res.TraceHash, len(res.Violations))
	hit := false
	for _, v := range res.Violations {
		fmt.Printf("replay: %s class=%s lint=%s site=%s op=%d: %s\n    expected %s\n    got      %s\n", v.Property, v.Class, v.Lint, v.Site, v.Op, v.Detail, v.Expected, v.Got)
		if p.Violation != nil && v.Sig() == p.Violation.Sig() {
			hit = true
		}
	}
	if p.Violation != nil {
		if hit {
			fmt.Printf("VIOLATION property=%s replay=%s\n", p.Violation.Property, args[0])
			os.Exit(1)
		}
		fmt.Println("replay: the recorded violation did not reproduce on this tree")
		return
	}
	if len(res.Violations) > 0 {
		os.Exit(1)
	}
}

// ---------------------------------------------------------------- evidence

func writeEvidence(cp *checkPlan, tier string, seed uint64, aggs []*batchAgg, nViol int, cross map[string]int, wall float64, harness []string) {
	runs, steps, ops, checks := 0, 0, 0, 0
	fired := map[string]int{}
	reach := map[string]int{}
	union := map[string]map[string]bool{}
	var samples []any
	var batches []map[string]any
	for _, a := range aggs {
		runs += a.Runs
		steps += a.Steps
		ops += a.Ops
		checks += a.Checks
		for k, v := range a.Counters {
			if isFaultCounter(k) {
				fired[k] += v
			} else {
				reach[k] += v
			}
		}
		for m, set := range a.Distinct {
			if union[m] == nil {
				union[m] = map[string]bool{}
			}
			for x := range set {
				union[m][x] = true
			}
		}
		samples = append(samples, a.Samples...)
		batches = append(batches, map[string]any{"label": a.Spec.Label, "engine": a.Spec.Engine, "mode": a.Spec.Mode, "runs": a.Runs, "first_seed": a.FirstSeed,
			"steps": a.Steps, "ops": a.Ops, "checks": a.Checks, "wall_s": round1(a.WallS), "fault_free": a.Spec.FaultFree, "race_build": a.Spec.Race, "gomaxprocs": a.Spec.MaxProcs})
	}
	distinct := map[string]int{}
	for m, set := range union {
		distinct[m] = len(set)
	}
	if len(samples) > 4 {
		samples = samples[:4]
	}
	if len(samples) == 0 {
		samples = []any{"no run completed"}
	}
	dn := distinct[cp.Measure]
	perHour := 0.0
	if wall > 0 {
		perHour = float64(runs) / wall * 3600
	}
	cov := map[string]any{
		"evaluations":         runs,
		"distinct_nontrivial": dn,
		"rule":                cp.Rule,
		"samples":             samples,
		"runs":                runs,
		"runs_per_hour":       int(perHour),
		"seeds":               map[string]any{"batch_seed": seed, "derivation": "run i of a batch uses splitmix64(batch_seed ^ fnv(engine/profile/label)) + i*golden, see core.go runSeed"},
		"simulated_time":      map[string]any{"logical_steps": steps, "ops": ops, "note": "zlint has no timer; simulated time is counted in scheduler steps / history events"},
		"oracle_checks":       checks,
		"fault_kinds_fired":   fired,
		"reach_probes":        reach,
		"distinct_measures":   distinct,
		"batches":             batches,
		"components":          cp.Components,
		"cross_observations":  cross,
		"exhaustive":          false,
	}
	if len(harness) > 0 {
		cov["harness_trouble"] = harness
	}
	ev := map[string]any{
		"property_id": cp.Prop,
		"tier":        tier,
		"seed":        int64(seed & 0x7fffffffffffffff),
		"level":       cp.Level,
		"coverage":    cov,
		"assumptions": cp.Assumption,
		"wall_s":      round1(wall),
		"violations":  nViol,
	}
	b, _ := json.MarshalIndent(ev, "", " ")
	path := filepath.Join(verifRoot(), "evidence", cp.Prop+".json")
	if err := os.WriteFile(path, b, 0o644); err != nil {
		die(2, "cannot write evidence: %v", err)
	}
}

func round1(x float64) float64 { return float64(int(x*10+0.5)) / 10 }

func isFaultCounter(k string) bool {
	for _, p := range []string{"reader_", "file_", "probe_panic", "configure_", "illtyped_", "status_mix/", "hostile_", "cli_fault/", "fault/", "script_", "preempt", "loadcfg_failed", "panic_"} {
		if strings.HasPrefix(k, p) {
			return true
		}
	}
	return false
}

var realComponents = []string{
	"github.com/zmap/zlint/v3 (LintCertificateEx/LintRevocationListEx/LintOcspResponseEx, ResultSet)",
	"github.com/zmap/zlint/v3/lint (registry, lookups, Filter, configuration, base lifecycle incl. recover)",
	"all nine lint packages under v3/lints and v3/util",
	"zcrypto x509 parser, x/crypto/ocsp parser, pelletier/go-toml",
}

var stubComponents = []string{
	"probe lints (registered through the public Register* API from the harness binary)",
	"fault-injecting io.Reader / scratch files for configuration loading",
	"registry reference model, lifecycle model",
}
