package main

// Fresh-process reference ref(objDER, lint, cfgText, script) (DESIGN §3.5-1):
// the implementation itself in the only state whose history is empty. For every
// lint of the object's kind a new process parses the DER afresh *per lint*,
// builds the single-lint registry, sets the configuration and lints.

import (
	"bytes"
	"context"
	"encoding/json"
	"fmt"
	"io"
	"os"
	"os/exec"
	"path/filepath"
	"sort"
	"strings"
	"sync"

	zlint "github.com/zmap/zlint/v3"
	"github.com/zmap/zlint/v3/lint"
)

type OracleReq struct {
	Kind   int    `json:"kind"`
	DER    []byte `json:"der"`
	Cfg    string `json:"cfg"`
	Script Script `json:"script,omitempty"`
	Only   string `json:"only,omitempty"` // one process per (object, lint): cross-check mode
	Clock  int64  `json:"clock,omitempty"` // simulated instant (fine-grain build only); 0 = the real clock
}

type OracleResp struct {
	CfgErr  string         `json:"cfg_err,omitempty"`
	Results map[string]Res `json:"results"`
	Panics  map[string]string `json:"panics,omitempty"` // lint -> panic that escaped Lint*Ex
	Crash   string            `json:"crash,omitempty"`  // the Go runtime ended the reference process (client side only, never cached): marker and first zlint frame
	Hung    bool              `json:"hung,omitempty"`   // the reference process did not finish (client side only, never cached)
}

func (r *OracleReq) key() string {
	if r.Clock != 0 {
		return sha([]byte{byte(r.Kind)}, r.DER, []byte(r.Cfg), []byte(mustJSON(r.Script)), []byte(r.Only), []byte(fmt.Sprint("clock=", r.Clock)))
	}
	return sha([]byte{byte(r.Kind)}, r.DER, []byte(r.Cfg), []byte(mustJSON(r.Script)), []byte(r.Only))
}

// oracleMain is `zsim oracle`: request on stdin, response on stdout.
func oracleMain() {
	in, err := io.ReadAll(os.Stdin)
	if err != nil {
		die(2, "oracle: %v", err)
	}
	var req OracleReq
	if err := json.Unmarshal(in, &req); err != nil {
		die(2, "oracle: bad request: %v", err)
	}
	resp := computeOracle(&req)
	os.Stdout.Write([]byte(mustJSON(resp)))
}

func computeOracle(req *OracleReq) *OracleResp {
	resp := &OracleResp{Results: map[string]Res{}, Panics: map[string]string{}}
	cfg, err := lint.NewConfigFromString(req.Cfg)
	if err != nil {
		resp.CfgErr = err.Error()
		return resp
	}
	curScript = req.Script
	if req.Clock != 0 {
		if !fineGrainBuild {
			die(2, "oracle: a simulated clock needs the zsim.fg build")
		}
		setSimClock(req.Clock, nil)
	}
	meta := readMetaTable()
	names := meta.namesOfKind(req.Kind, false)
	if req.Only != "" {
		names = []string{req.Only}
	}
	// visit lints in an order derived from the request, so that the oracle has
	// no fixed order effect of its own to hide behind
	g := newRNG(strHash64(req.key()))
	perm := g.Perm(len(names))
	for _, pi := range perm {
		name := names[pi]
		func() {
			defer func() {
				if r := recover(); r != nil {
					resp.Panics[name] = fmt.Sprint(r)
				}
			}()
			p, err := parseObj(req.Kind, req.DER)
			if err != nil {
				die(2, "oracle: object does not parse: %v", err)
			}
			reg, err := lint.GlobalRegistry().Filter(lint.FilterOptions{IncludeNames: []string{name}})
			if err != nil {
				die(2, "oracle: filter %q: %v", name, err)
			}
			reg.SetConfiguration(cfg)
			var rs *zlint.ResultSet
			switch req.Kind {
			case KCert:
				rs = zlint.LintCertificateEx(p.Cert, reg)
			case KCRL:
				rs = zlint.LintRevocationListEx(p.CRL, reg)
			case KOCSP:
				rs = zlint.LintOcspResponseEx(p.OCSP, reg)
			}
			if rs == nil || rs.Results[name] == nil {
				die(2, "oracle: no result for %q", name)
			}
			resp.Results[name] = Res{S: int(rs.Results[name].Status), D: rs.Results[name].Details}
		}()
	}
	return resp
}

// ---------------------------------------------------------------- client side

var (
	oracleMemo   = map[string]*OracleResp{}
	oracleMu     sync.Mutex
	binHashOnce  sync.Once
	binHashValue string
)

func binHash() string {
	binHashOnce.Do(func() {
		if v := os.Getenv("ZSIM_BINHASH"); v != "" {
			binHashValue = v
			return
		}
		exe, err := os.Executable()
		if err != nil {
			die(2, "no executable path: %v", err)
		}
		b, err := os.ReadFile(exe)
		if err != nil {
			die(2, "cannot read own binary: %v", err)
		}
		binHashValue = sha(b)[:20]
	})
	return binHashValue
}

func oracleCacheDir() string {
	return filepath.Join(verifRoot(), "work", "oracle", binHash())
}

// pruneOracleCache removes cache directories of other binaries.
func pruneOracleCache() {
	base := filepath.Join(verifRoot(), "work", "oracle")
	ents, err := os.ReadDir(base)
	if err != nil {
		return
	}
	for _, e := range ents {
		if e.Name() != binHash() {
			os.RemoveAll(filepath.Join(base, e.Name()))
		}
	}
}

var oracleCounters = counters{}

// ref asks the fresh-process reference. Results are cached on disk per binary.
func ref(kind int, der []byte, cfg string, script Script, only string) *OracleResp {
	return refReq(&OracleReq{Kind: kind, DER: der, Cfg: cfg, Script: script, Only: only})
}

// refClock is the reference under a simulated clock: this (fine-grain) binary in a
// fresh process with the clock set to t before anything is linted. Not cached on disk.
func refClock(kind int, der []byte, cfg string, only string, t int64) *OracleResp {
	return refReq(&OracleReq{Kind: kind, DER: der, Cfg: cfg, Only: only, Clock: t})
}

// refExe is the binary that answers reference requests made at the real clock: the worker's
// own binary, or - for workers of the fine-grain build - the un-instrumented harness, so that
// the reference is shared with every other batch and cross-checks the instrumentation.
func refExe(req *OracleReq) (exe, hash string) {
	if req.Clock == 0 {
		if e := os.Getenv("ZSIM_REF_EXE"); e != "" {
			return e, os.Getenv("ZSIM_REF_BINHASH")
		}
	}
	exe, _ = os.Executable()
	return exe, binHash()
}

func refReq(req *OracleReq) *OracleResp {
	k := req.key()
	exe, hash := refExe(req)
	oracleMu.Lock()
	if r, ok := oracleMemo[k]; ok {
		oracleMu.Unlock()
		return r
	}
	oracleMu.Unlock()
	dir := filepath.Join(verifRoot(), "work", "oracle", hash, k[:2])
	path := filepath.Join(dir, k+".json")
	if b, err := os.ReadFile(path); err == nil && req.Clock == 0 {
		var r OracleResp
		if json.Unmarshal(b, &r) == nil && r.Results != nil {
			oracleCounters.inc("oracle_cache_hit")
			oracleMu.Lock()
			oracleMemo[k] = &r
			oracleMu.Unlock()
			return &r
		}
	}
	ctx, cancel := context.WithTimeout(context.Background(), 2*opHangLimit)
	defer cancel()
	cmd := exec.CommandContext(ctx, exe, "oracle")
	cmd.Stdin = bytes.NewReader([]byte(mustJSON(req)))
	cmd.Env = append(os.Environ(), "ZSIM_BINHASH="+hash)
	var out, errb bytes.Buffer
	cmd.Stdout, cmd.Stderr = &out, &errb
	if err := cmd.Run(); err != nil {
		if ctx.Err() == context.DeadlineExceeded {
			// the lint of this object alone, in a fresh process, does not return either
			oracleCounters.inc("oracle_process_hung")
			return &OracleResp{Results: map[string]Res{}, Panics: map[string]string{}, Hung: true}
		}
		// the Go runtime ended the reference process: every goroutine blocked for good (a lint waiting on
		// its own helpers), unsynchronised map access, runaway recursion - the lint of this object alone
		// does not return normally; that is a statement about the code, not trouble of the harness
		for _, marker := range []string{"all goroutines are asleep - deadlock", "fatal error: concurrent map", "fatal error: stack overflow", "goroutine stack exceeds"} {
			if strings.Contains(errb.String(), marker) && strings.Contains(errb.String(), "github.com/zmap/zlint/v3/") {
				oracleCounters.inc("oracle_process_crashed")
				return &OracleResp{Results: map[string]Res{}, Panics: map[string]string{}, Hung: true, Crash: marker + ": " + crashSite(errb.String())}
			}
		}
		die(2, "oracle process failed: %v: %s", err, errb.String())
	}
	var r OracleResp
	if err := json.Unmarshal(out.Bytes(), &r); err != nil {
		die(2, "oracle output: %v", err)
	}
	oracleCounters.inc("oracle_process")
	if req.Clock == 0 {
		os.MkdirAll(dir, 0o755)
		tmp := fmt.Sprintf("%s.%d.tmp", path, os.Getpid())
		if os.WriteFile(tmp, out.Bytes(), 0o644) == nil {
			os.Rename(tmp, path)
		}
	} else {
		oracleCounters.inc("oracle_process_simclock")
	}
	oracleMu.Lock()
	oracleMemo[k] = &r
	oracleMu.Unlock()
	return &r
}

func sortedResNames(m map[string]Res) []string {
	ks := make([]string, 0, len(m))
	for k := range m {
		ks = append(ks, k)
	}
	sort.Strings(ks)
	return ks
}

// crashSite is the first frame of zlint's own packages in a Go runtime crash report.
func crashSite(trace string) string {
	for _, ln := range strings.Split(trace, "\n") {
		if i := strings.Index(ln, "github.com/zmap/zlint/v3/"); i >= 0 && !strings.HasPrefix(ln, "\t") {
			f := ln[i+len("github.com/zmap/zlint/v3/"):]
			if j := strings.LastIndex(f, "("); j > 0 {
				f = f[:j]
			}
			return f
		}
	}
	return ""
}
