package main

// Minimisation of failing plans: delta debugging over ops (with the registry
// index dependencies repaired), then substitutions towards simpler ops and
// objects. A candidate is kept only if a fresh process reports a violation
// with the same signature (property, class, lint, site).

import (
	"strings"
	"time"
)

func minimise(p *Plan, v Violation, spec batchSpec, tier string, budget time.Duration) *Plan {
	deadline := time.Now().Add(budget)
	test := func(c *Plan) bool {
		if time.Now().After(deadline) {
			return false
		}
		return reproduces(c, v, spec, tier)
	}
	switch p.Engine {
	case "hist", "fault":
		return minimiseOps(p, test, deadline)
	case "sched":
		return minimiseSched(p, test, deadline)
	case "cli":
		return minimiseCLI(p, test, deadline)
	}
	return nil
}

// normaliseOps rebuilds the op list keeping only ops with keep[i], dropping
// ops that depend on a registry whose creating Filter was dropped and
// renumbering registries.
func normaliseOps(p *Plan, keep []bool) *Plan {
	meta := readMetaTable()
	all := map[string]bool{}
	for _, n := range meta.Names {
		all[n] = true
	}
	oldM := []*ModelReg{{Sel: all}}
	mapReg := []int{0}
	nNew := 1
	q := p.clone()
	q.Ops = nil
	for i, op := range p.Ops {
		if op.Reg >= len(oldM) {
			continue
		}
		creating := false
		if op.K == "filter" && op.Opts != nil {
			fv := modelFilter(meta, oldM[op.Reg], op.Opts)
			if !fv.Err {
				creating = true
				oldM = append(oldM, &ModelReg{Sel: fv.Sel})
			}
		}
		kept := keep[i] && mapReg[op.Reg] >= 0
		if creating {
			if kept {
				mapReg = append(mapReg, nNew)
				nNew++
			} else {
				mapReg = append(mapReg, -1)
			}
		}
		if kept {
			op.Reg = mapReg[op.Reg]
			q.Ops = append(q.Ops, op)
		}
	}
	return q
}

// dropUnused removes objects and configurations no op refers to.
func dropUnused(p *Plan) *Plan {
	q := p.clone()
	usedO := map[int]bool{}
	usedC := map[int]bool{}
	for _, op := range q.Ops {
		switch op.K {
		case "lint", "repeat", "probe", "direct":
			usedO[op.Obj] = true
		case "setcfg", "loadcfg":
			if op.Cfg >= 0 {
				usedC[op.Cfg] = true
			}
		}
	}
	mo := map[int]int{}
	var objs []ObjSpec
	for i, o := range q.Objects {
		if usedO[i] {
			mo[i] = len(objs)
			objs = append(objs, o)
		}
	}
	mc := map[int]int{}
	var cfgs []CfgSpec
	for i, c := range q.Cfgs {
		if usedC[i] {
			mc[i] = len(cfgs)
			cfgs = append(cfgs, c)
		}
	}
	for i := range q.Ops {
		op := &q.Ops[i]
		switch op.K {
		case "lint", "repeat", "probe", "direct":
			op.Obj = mo[op.Obj]
		case "setcfg", "loadcfg":
			if op.Cfg >= 0 {
				op.Cfg = mc[op.Cfg]
			}
		}
	}
	q.Objects, q.Cfgs = objs, cfgs
	return q
}

func minimiseOps(p *Plan, test func(*Plan) bool, deadline time.Time) *Plan {
	cur := p.clone()
	if !test(cur) {
		return nil // does not even reproduce as is
	}
	// ---- ddmin over ops
	n := 2
	for len(cur.Ops) >= 2 && time.Now().Before(deadline) {
		size := len(cur.Ops)
		chunk := (size + n - 1) / n
		reduced := false
		for start := 0; start < size; start += chunk {
			keep := make([]bool, size)
			for i := range keep {
				keep[i] = i < start || i >= start+chunk
			}
			cand := normaliseOps(cur, keep)
			if len(cand.Ops) < len(cur.Ops) && test(cand) {
				cur = cand
				if n > 2 {
					n--
				}
				reduced = true
				break
			}
		}
		if !reduced {
			if chunk <= 1 {
				break
			}
			n *= 2
			if n > size {
				n = size
			}
		}
	}
	// ---- substitutions towards simpler ops
	for i := range cur.Ops {
		if time.Now().After(deadline) {
			break
		}
		op := cur.Ops[i]
		if op.K != "lint" {
			continue
		}
		if op.Path != "ex" && op.Path != "" {
			c := cur.clone()
			c.Ops[i].Path, c.Ops[i].Perm = "ex", 0
			if test(c) {
				cur = c
			}
		}
		if cur.Ops[i].Fresh {
			c := cur.clone()
			c.Ops[i].Fresh = false
			if test(c) {
				cur = c
			}
		}
	}
	cur = dropUnused(cur)
	// ---- mutated object -> corpus original
	for i := range cur.Objects {
		if time.Now().After(deadline) {
			break
		}
		id := cur.Objects[i].ID
		if j := strings.Index(id, "#"); j > 0 {
			base := id[:j]
			if k := strings.Index(base, ":"); k > 0 {
				if o := loadCorpusFile(base[k+1:]); o != nil {
					c := cur.clone()
					c.Objects[i] = *o
					if test(c) {
						cur = c
					}
				}
			}
		}
	}
	// ---- repetition counts up: a defect that shows with probability < 1 per repetition (Go map
	// iteration order cannot be seeded) should reproduce on (nearly) every replay of the file
	{
		c := cur.clone()
		raised := false
		for i := range c.Ops {
			if c.Ops[i].K == "repeat" && c.Ops[i].R < 400 {
				c.Ops[i].R = 400
				raised = true
			}
		}
		if raised && test(c) {
			cur = c
		}
	}
	if !test(cur) {
		return nil
	}
	return cur
}
