package main

// HIST engine, checks over the recorded history (after the execution phase):
// comparison of every lint result with the fresh-process reference, the C11
// configuration-locality rules and the C07 pairwise selection comparison.

import (
	"crypto/rsa"
	"fmt"
	"math/big"
	"strings"
	"sync"

	toml "github.com/pelletier/go-toml"
	"github.com/zmap/zlint/v3/lint"
)

func tomlLoad(s string) (*toml.Tree, error) { return toml.Load(s) }

func tomlHasTable(t *toml.Tree, name string) bool {
	v := t.Get(name)
	_, ok := v.(*toml.Tree)
	return ok
}

const panicMarker = "panicked"

func inList(xs []string, s string) bool {
	for _, x := range xs {
		if x == s {
			return true
		}
	}
	return false
}

func (h *histState) oraclePhase() {
	xchecks := 0
	if h.p.Tier == "thorough" {
		xchecks = 3
	}
	seenEarlier := map[string]bool{}
	for ri, rec := range h.recs {
		o := h.objs[rec.obj]
		kind := o.spec.Kind
		cfgText := h.cfgText(rec.cfg)
		var spec *CfgSpec
		if rec.cfg >= 0 {
			spec = h.cfgs[rec.cfg].spec
		}
		// non-triviality: an earlier checked lint used another object, registry or configuration
		key := fmt.Sprintf("%d|%d|%d", rec.obj, rec.reg, rec.cfg)
		nontrivial := false
		for k := range seenEarlier {
			if k != key {
				nontrivial = true
			}
		}
		seenEarlier[key] = true
		if nontrivial {
			h.mark("nontrivial", shortHash(fmt.Sprintf("%d|%d|%s|%s|%s", h.p.Seed, rec.op, shortHash(string(o.spec.DER)), selKey(rec.sel), shortHash(cfgText))))
		}
		if rec.canon.Panic != "" {
			if spec != nil && spec.Ill != "" {
				h.violate(Violation{Property: "C11", Class: "illtyped_panic", Lint: spec.Ill, Op: rec.op, Site: kindNames[kind],
					Detail: fmt.Sprintf("a section that cannot be applied (%s) made linting panic out of the %s entry point: %s", spec.IllShape, kindNames[kind], clip(rec.canon.Panic, 200))})
			}
			continue
		}
		R := ref(kind, o.spec.DER, cfgText, nil, "")
		if R.CfgErr != "" {
			h.log.Add("harness: reference rejects configuration %d: %s", rec.cfg, R.CfgErr)
			continue
		}
		if R.Crash != "" {
			// the call returned in this process, yet the same object linted alone ends a fresh process
			h.violate(Violation{Property: "C01", Class: "process_crash", Op: rec.op, Site: R.Crash,
				Detail: fmt.Sprintf("linting %s alone in a fresh process does not return: the Go runtime ends the process (%s)", o.spec.ID, R.Crash)})
			continue
		}
		if R.Hung {
			h.log.Add("harness: the reference process for op %d did not finish", rec.op)
			continue
		}
		var R0, RW *OracleResp
		if spec != nil {
			R0 = ref(kind, o.spec.DER, "", nil, "")
			if spec.Ill != "" {
				RW = ref(kind, o.spec.DER, spec.TextWithoutIll, nil, "")
			}
		}
		if rec.inject != "" {
			// a panic was injected into whichever rule executed a seeded statement of this call: exactly
			// that rule must report fatal (the framework's recovered-panic report), every other result
			// must be what it is without the fault, and the call must have returned normally (C01 monitor)
			var diff []string
			for _, n := range sortedKeys(rec.canon.Results) {
				if exp, ok := R.Results[n]; ok && R.Panics[n] == "" && rec.canon.Results[n] != exp {
					diff = append(diff, n)
				}
			}
			h.checks += len(rec.canon.Results)
			switch {
			case len(diff) == 0:
				h.ctr.inc("injected_panic_without_effect")
			case len(diff) == 1 && rec.canon.Results[diff[0]].S == 7 && strings.Contains(rec.canon.Results[diff[0]].D, "zsim-injected-fault"):
				h.ctr.inc("injected_panic_contained")
				h.mark("inject_lints", diff[0])
			case len(diff) == 1:
				h.violate(Violation{Property: "C01", Class: "panic_not_fatal", Lint: diff[0], Op: rec.op, Site: rec.inject,
					Detail:   "a panic injected into a running rule at " + rec.inject + " did not come back as that lint's fatal result carrying the panic",
					Expected: "fatal: ... zsim-injected-fault at " + rec.inject, Got: rec.canon.Results[diff[0]].String()})
			default:
				h.violate(Violation{Property: "C01", Class: "panic_collateral", Lint: diff[0], Op: rec.op, Site: rec.inject,
					Detail: fmt.Sprintf("a panic injected into one running rule at %s changed the results of %d lints of the same call: %v", rec.inject, len(diff), diff)})
				h.violate(Violation{Property: "C04", Class: "panic_collateral", Lint: diff[0], Op: rec.op, Site: rec.inject,
					Detail: fmt.Sprintf("a panic injected into one running rule at %s changed the results of %d lints of the same call: %v", rec.inject, len(diff), diff)})
			}
			continue
		}
		h.fermatModel(rec, o, cfgText)
		for _, n := range sortedKeys(rec.canon.Results) {
			got := rec.canon.Results[n]
			if rec.script != nil && isProbeName(n) {
				continue // scripted probes are judged by the lifecycle model, not by the reference
			}
			h.checks++
			if pn := R.Panics[n]; pn != "" {
				// the reference itself (fresh process, this lint alone) panics out of the entry point
				h.violate(Violation{Property: "C01", Class: "panic_escaped", Lint: n, Op: rec.op, Site: kindNames[kind] + "/ref",
					Detail: "in a fresh process, linting with this lint alone panics out of the entry point: " + clip(pn, 200)})
				continue
			}
			exp, ok := R.Results[n]
			if !ok {
				continue
			}
			if rec.clock != 0 && (got != exp || clockExempt[n]) {
				// the call was made under a simulated clock: ask a fresh process at the same simulated instant
				RC := refClock(kind, o.spec.DER, cfgText, n, rec.clock)
				expC, okC := RC.Results[n]
				switch {
				case !okC:
					h.log.Add("harness: no simulated-clock reference for %s", n)
				case clockExempt[n] && got == expC:
					if expC != exp {
						h.ctr.inc("clock_exempt_lint_followed_clock")
					} else {
						h.ctr.inc("clock_exempt_lint_checked")
					}
				case clockExempt[n]:
					h.violate(Violation{Property: "C05", Class: "history_dep", Lint: n, Op: rec.op,
						Detail:   fmt.Sprintf("op %d at simulated instant %d differs from the same lint run alone in a fresh process at the same simulated instant", rec.op, rec.clock),
						Expected: expC.String(), Got: got.String()})
				case got == expC:
					h.violate(Violation{Property: "C05", Class: "clock_dep", Lint: n, Op: rec.op,
						Detail:   fmt.Sprintf("the result follows the wall clock: at simulated instant %d (obj=%s) it differs from the result at the real clock, and a fresh process at the same simulated instant agrees with it; only the two TLD-table lints may read the clock", rec.clock, o.spec.ID),
						Expected: exp.String(), Got: got.String()})
				default:
					h.violate(Violation{Property: "C05", Class: "history_dep", Lint: n, Op: rec.op,
						Detail:   fmt.Sprintf("op %d (simulated instant %d) differs from the same lint run alone in a fresh process, at the real clock and at the simulated instant", rec.op, rec.clock),
						Expected: exp.String(), Got: got.String()})
				}
				continue
			}
			if got != exp {
				d := fmt.Sprintf("op %d (%s obj=%s reg=%d cfg=%d fresh=%v) differs from the same lint run alone on a freshly parsed object in a fresh process",
					rec.op, rec.path, o.spec.ID, rec.reg, rec.cfg, rec.fresh)
				h.violate(Violation{Property: "C05", Class: "history_dep", Lint: n, Op: rec.op, Detail: d, Expected: exp.String(), Got: got.String()})
				h.violate(Violation{Property: "C07", Class: "selection_dep", Lint: n, Op: rec.op, Detail: d, Expected: exp.String(), Got: got.String()})
			}
			// ---- C11: configuration changes only what it names
			if spec == nil {
				continue
			}
			if spec.Ill == n || (spec.IllShape == "global_not_table" && isProbeName(n) && h.meta.ByName[n] != nil && h.meta.ByName[n].Configurable) {
				// (a global section that is not a table cannot be applied to any lint whose options refer to it)
				h.ctr.inc("illtyped_target_linted/" + spec.IllShape + "/" + kindNames[kind])
				naOK := R0 != nil && R0.Results[n].S == 1
				hasMarker := strings.Contains(got.D, panicMarker)
				switch {
				case hasMarker:
					h.violate(Violation{Property: "C11", Class: "illtyped_recovered_panic", Lint: n, Op: rec.op, Site: spec.IllShape,
						Detail: "an inapplicable section (" + spec.IllShape + ") is reported as a recovered panic instead of a configuration error", Got: got.String()})
				case spec.MustFatal && got.S == 7 && strings.TrimSpace(got.D) != "":
					h.ctr.inc("config_error_fatal")
				case spec.MustFatal && got.S == 1 && naOK:
					h.ctr.inc("config_error_na_out_of_scope")
				case spec.MustFatal:
					h.violate(Violation{Property: "C11", Class: "illtyped_not_fatal", Lint: n, Op: rec.op, Site: spec.IllShape,
						Detail: "a section that cannot be applied (" + spec.IllShape + ") did not make the lint report fatal with a configuration message", Got: got.String()})
				}
				continue
			}
			var base *OracleResp
			baseName := "no configuration"
			switch {
			case !inList(spec.Targets, n):
				base = R0
			case spec.Ill != "" && RW != nil:
				base, baseName = RW, "the same configuration without the inapplicable section"
			}
			if base == nil {
				continue
			}
			if bpn := base.Panics[n]; bpn != "" {
				continue
			}
			if b, ok := base.Results[n]; ok && got != b {
				h.violate(Violation{Property: "C11", Class: "unnamed_lint_changed", Lint: n, Op: rec.op, Site: spec.Class,
					Detail:   fmt.Sprintf("configuration of class %q (names %v, inapplicable for %q) changed a lint it does not name; baseline is %s", spec.Class, spec.Targets, spec.Ill, baseName),
					Expected: b.String(), Got: got.String()})
			}
		}
		// thorough: one process per (object, lint) must agree with the per-object reference
		if xchecks > 0 && ri%7 == 0 {
			names := sortedKeys(rec.canon.Results)
			if len(names) > 0 {
				n := names[int(strHash64(fmt.Sprint(h.p.Seed, ri))%uint64(len(names)))]
				if _, inRef := R.Results[n]; !inRef {
					// a lint the reference process does not have (a probe registered in the middle of this history)
					continue
				}
				one := ref(kind, o.spec.DER, cfgText, nil, n)
				if one.Results[n] != R.Results[n] && R.Panics[n] == "" {
					h.violate(Violation{Property: "C05", Class: "history_dep", Lint: n, Op: rec.op,
						Detail:   "one fresh process per (object, lint) disagrees with one fresh process per object: the lint depends on what ran before it",
						Expected: one.Results[n].String(), Got: R.Results[n].String()})
				}
				h.ctr.inc("per_object_lint_crosscheck")
				xchecks--
			}
		}
	}
	h.pairwise()
	h.nontriv = len(h.distinct["nontrivial"])
}

// pairwise: C07 — two lint calls on the same bytes under the same
// configuration but different selections agree on every common lint, the
// filtered run has no foreign key (checked by the C01 monitor against the
// model) and raises no flag the wider run does not raise.
func (h *histState) pairwise() {
	groups := map[string][]*lintRecord{}
	var order []string
	for _, rec := range h.recs {
		if rec.canon.Panic != "" || rec.inject != "" {
			continue
		}
		k := shortHash(string(h.objs[rec.obj].spec.DER)) + "|" + shortHash(h.cfgText(rec.cfg))
		if _, ok := groups[k]; !ok {
			order = append(order, k)
		}
		groups[k] = append(groups[k], rec)
	}
	reported := map[string]bool{}
	for _, k := range order {
		rs := groups[k]
		for a := 0; a < len(rs); a++ {
			for b := a + 1; b < len(rs); b++ {
				ra, rb := rs[a], rs[b]
				ka, kb := selKey(ra.sel), selKey(rb.sel)
				if ka == kb || ra.clock != rb.clock {
					continue
				}
				h.ctr.inc("selection_pairs_compared")
				h.mark("selection_pairs", shortHash(k+ka+kb))
				h.checks++
				// a lint both selections contain must have a result in both runs
				if !ra.partial && !rb.partial {
					miss := func(p, q *lintRecord) {
						for _, n := range sortedKeys(p.canon.Results) {
							if _, ok := q.canon.Results[n]; !ok && q.sel[n] && !reported["missing:"+n] {
								reported["missing:"+n] = true
								h.violate(Violation{Property: "C07", Class: "missing_in_other_selection", Lint: n, Op: q.op,
									Detail: fmt.Sprintf("op %d (reg %d, %d lints) has a result for this lint, op %d (reg %d, %d lints, which also selects it) on the same bytes under the same configuration has none", p.op, p.reg, len(p.sel), q.op, q.reg, len(q.sel))})
								return
							}
						}
					}
					miss(ra, rb)
					miss(rb, ra)
				}
				for _, n := range sortedKeys(ra.canon.Results) {
					x := ra.canon.Results[n]
					y, ok := rb.canon.Results[n]
					if !ok || x == y || reported[n] {
						continue
					}
					if (ra.script != nil || rb.script != nil) && isProbeName(n) {
						continue
					}
					reported[n] = true
					h.violate(Violation{Property: "C07", Class: "selection_dep", Lint: n, Op: rb.op,
						Detail:   fmt.Sprintf("ops %d (reg %d, %d lints) and %d (reg %d, %d lints) lint the same bytes under the same configuration but disagree", ra.op, ra.reg, len(ra.sel), rb.op, rb.reg, len(rb.sel)),
						Expected: x.String(), Got: y.String()})
				}
				if !ra.partial && !rb.partial && ra.script == nil && rb.script == nil {
					sub := func(p, q *lintRecord) {
						for n := range p.sel {
							if !q.sel[n] {
								return
							}
						}
						for f := 0; f < 4; f++ {
							if p.canon.Flags[f] && !q.canon.Flags[f] {
								h.violate(Violation{Property: "C07", Class: "flags_not_subset", Op: p.op,
									Detail: fmt.Sprintf("presence flag %d raised by the filtered run (op %d) is not raised by the wider run (op %d)", f, p.op, q.op)})
							}
						}
					}
					sub(ra, rb)
					sub(rb, ra)
				}
			}
		}
	}
}

// ---------------------------------------------------------------- a reference model for one option

// The fresh-process reference is the implementation itself: what an option *means* is invisible to it.
// For the one option whose meaning is plain arithmetic - the number of rounds of Fermat's method the
// factorization lint may spend - the harness has an independent model: its synthetic keys come from a pool
// of moduli that the textbook method factors in a known number K of rounds, so under Rounds = R the
// verdict on such a key is error iff R >= K, and pass otherwise (no rounds, nothing found). R is read from
// the configuration text by the harness (the section's key as go-toml matches it to the field: as written,
// lower case, upper case, first letter lower case); the default is the one the generated example documents.
const fermatLint = "e_rsa_fermat_factorization"

var fermatK = func() map[string]int {
	m := map[string]int{}
	for _, e := range fermatPool {
		if n, ok := new(big.Int).SetString(e.N, 16); ok {
			m[n.String()] = e.K
		}
	}
	return m
}()

var fermatDefaultRounds = func() func() (int64, bool) {
	var once sync.Once
	var v int64
	var ok bool
	return func() (int64, bool) {
		once.Do(func() {
			b, err := lint.GlobalRegistry().DefaultConfiguration()
			if err != nil {
				return
			}
			t, err := toml.LoadBytes(b)
			if err != nil {
				return
			}
			if sec, isT := t.Get(fermatLint).(*toml.Tree); isT {
				v, ok = sec.Get("Rounds").(int64)
			}
		})
		return v, ok
	}
}()

func fermatRounds(cfgText string) (r int64, known bool) {
	def, ok := fermatDefaultRounds()
	if !ok {
		return 0, false
	}
	if strings.TrimSpace(cfgText) == "" {
		return def, true
	}
	t, err := toml.Load(cfgText)
	if err != nil {
		return 0, false
	}
	raw := t.Get(fermatLint)
	if raw == nil {
		return def, true
	}
	sec, isT := raw.(*toml.Tree)
	if !isT {
		return 0, false
	}
	found := 0
	for _, k := range []string{"Rounds", "rounds", "ROUNDS"} {
		if v := sec.Get(k); v != nil {
			n, isInt := v.(int64)
			if !isInt {
				return 0, false
			}
			r = n
			found++
		}
	}
	switch found {
	case 0:
		return def, true
	case 1:
		return r, true
	}
	return 0, false // the same option under two spellings: which one wins is nobody's promise
}

func (h *histState) fermatModel(rec *lintRecord, o *objState, cfgText string) {
	if o.spec.Kind != KCert || rec.inject != "" || rec.script != nil {
		return
	}
	got, ok := rec.canon.Results[fermatLint]
	if !ok || (got.S != int(lint.Pass) && got.S != int(lint.Error)) {
		return
	}
	pk, isRSA := o.parsed.Cert.PublicKey.(*rsa.PublicKey)
	if !isRSA || pk.N == nil {
		return
	}
	K, weak := fermatK[pk.N.String()]
	if !weak {
		return
	}
	R, known := fermatRounds(cfgText)
	if !known {
		return
	}
	h.checks++
	h.ctr.inc("fermat_model_checks")
	want := int(lint.Pass)
	if R >= int64(K) {
		want = int(lint.Error)
	}
	if R < int64(K) {
		h.ctr.inc("fermat_model_rounds_below_k")
	}
	if R <= 0 {
		h.ctr.inc("fermat_model_rounds_not_positive")
	}
	if got.S != want {
		h.violate(Violation{Property: "C11", Class: "option_semantics", Lint: fermatLint, Op: rec.op,
			Detail:   fmt.Sprintf("the registry's configuration sets Rounds = %d; Fermat's method factors this key in exactly %d rounds", R, K),
			Expected: statusName(want), Got: got.String()})
	}
}

