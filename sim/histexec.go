package main

// HIST engine, execution half: runs one plan against the real library, with
// the invariant monitors evaluated after every op (C01 shape, C05 read-only,
// C08 refinement) and the reference comparisons (C05/C07/C11) evaluated over
// the recorded history afterwards.

import (
	"bytes"
	"fmt"
	"os"
	"path/filepath"
	"reflect"
	"runtime"
	"runtime/debug"
	"sort"
	"strconv"
	"strings"
	"syscall"
	"time"

	zlint "github.com/zmap/zlint/v3"
	"github.com/zmap/zlint/v3/lint"
)

type objState struct {
	spec    ObjSpec
	parsed  *Parsed
	freshFP string
	linted  bool
}

type cfgState struct {
	spec   *CfgSpec
	real   lint.Configuration
	loaded bool
	failed bool
	text   string // the text the loaded configuration denotes
}

type lintRecord struct {
	op      int
	obj     int
	reg     int
	cfg     int
	path    string
	fresh   bool
	canon   *CanonSet
	partial bool
	selKey  string
	sel     map[string]bool
	script  Script
	clock   int64 // simulated instant at which the call was made (0 = real clock)
	inject  string // statement site at which a panic was injected into the running rule ("" = none fired)
}

type histState struct {
	p     *Plan
	log   *EventLog
	ctr   counters
	meta  *MetaTable
	objs  []*objState
	regs  []lint.Registry
	mregs []*ModelReg
	cfgs  []*cfgState
	viol  []Violation
	recs  []*lintRecord
	jsonLine map[string]string
	libMajor int64
	aborted  bool
	distinct map[string]map[string]bool
	nontriv  int
	checks   int
	histHash string
	prevKind string
	emptyCfg lint.Configuration
	tmpDir   string
	curScriptBad map[string]bool
	harnessErr   string
	optPool      map[string]*lint.FilterOptions // filter options built by mkopts ops, by their plan form
	timersSet    bool
	opHung       bool // a registry op did not return: its goroutine may still be running, nothing more is touched
	keptExamples []keptExample
	hangDER      []byte // bytes and configuration text of the lint call in progress (for the hang report)
	hangCfg      string
	hasRegister  int // -1 unknown, 0 no, 1 the plan registers late probes
	clock        int64           // simulated clock (fine-grain build, clock mode); 0 = real clock
	clockReads   map[string]int  // clock reads of the code under test since the last lint call began, by site
}

// opHangLimit bounds one library call (ZSIM_OP_HANG_S overrides it, for tests of the watchdog).
var opHangLimit = func() time.Duration {
	if v := os.Getenv("ZSIM_OP_HANG_S"); v != "" {
		if n, err := strconv.Atoi(v); err == nil && n > 0 {
			return time.Duration(n) * time.Second
		}
	}
	return 30 * time.Second
}()

func (h *histState) violate(v Violation) {
	h.viol = append(h.viol, v)
	h.log.Add("VIOLATION %s %s lint=%s op=%d %s", v.Property, v.Class, v.Lint, v.Op, clip(v.Detail, 200))
}

func (h *histState) mark(measure, item string) {
	m := h.distinct[measure]
	if m == nil {
		m = map[string]bool{}
		h.distinct[measure] = m
	}
	m[item] = true
}

// libraryMajor derives "the library's major version" from the module path of
// the package under test (not from its Version constant).
func libraryMajor() int64 {
	pp := reflect.TypeOf(zlint.ResultSet{}).PkgPath()
	i := strings.LastIndex(pp, "/v")
	if i < 0 {
		return 1
	}
	n, err := strconv.ParseInt(pp[i+2:], 10, 64)
	if err != nil {
		return 1
	}
	return n
}

func writeMarker(tag string) {
	// a write to an invalid descriptor: visible to strace, no effect otherwise
	syscall.Write(-1, []byte("ZSIM-MARK-"+tag))
}

func runHist(p *Plan, keepLog bool) *RunResult {
	h := &histState{p: p, log: &EventLog{keep: keepLog}, ctr: counters{}, distinct: map[string]map[string]bool{}, hasRegister: -1}
	h.log.Add("seed=%d engine=%s prop=%s tier=%s", p.Seed, p.Engine, p.Prop, p.Tier)
	h.meta = readMetaTable()
	h.libMajor = libraryMajor()
	h.emptyCfg = lint.NewEmptyConfig()
	curScript = nil
	for i := range p.Objects {
		o := &objState{spec: p.Objects[i]}
		pp, err := parseObj(o.spec.Kind, o.spec.DER)
		if err != nil {
			return &RunResult{Seed: p.Seed, Engine: "hist", Prop: p.Prop, HarnessErr: fmt.Sprintf("object %s does not parse: %v", o.spec.ID, err)}
		}
		o.parsed = pp
		o.freshFP = exportedFingerprint(pp.value())
		h.objs = append(h.objs, o)
		h.log.Add("object %d %s sha=%s", i, o.spec.ID, sha(o.spec.DER)[:12])
	}
	for i := range p.Cfgs {
		h.cfgs = append(h.cfgs, &cfgState{spec: &p.Cfgs[i]})
	}
	if v, ok := p.Knobs["gcpercent"]; ok {
		// the collector's pace for this run (int when generated here, float64 when read from a replay file)
		switch x := v.(type) {
		case int:
			debug.SetGCPercent(x)
		case float64:
			debug.SetGCPercent(int(x))
		}
		h.ctr.inc("gc_pace_set")
	}
	g := lint.GlobalRegistry()
	g.SetConfiguration(h.emptyCfg)
	h.regs = []lint.Registry{g}
	all := map[string]bool{}
	for _, n := range h.meta.Names {
		all[n] = true
	}
	h.mregs = []*ModelReg{{Sel: all, Cfg: -1}}
	// the registry listing of the global registry, line per lint, for C08
	h.jsonLine = map[string]string{}
	{
		var sb strings.Builder
		g.WriteJSON(&sb)
		for _, ln := range strings.Split(strings.TrimSuffix(sb.String(), "\n"), "\n") {
			i := strings.Index(ln, `"name":"`)
			if i < 0 {
				continue
			}
			rest := ln[i+8:]
			j := strings.Index(rest, `"`)
			if j > 0 {
				h.jsonLine[rest[:j]] = ln
			}
		}
	}

	if os.Getenv("ZSIM_NOFILE") != "" {
		// the process's time zone is read now: the Go runtime would otherwise read the zone file at the first
		// local-time computation, after descriptors have been taken away below, and fall back to UTC
		_, _ = time.Now().Zone()
		// fault injected into every would-be I/O of the lint phase: no descriptor can be opened
		var rl syscall.Rlimit
		if syscall.Getrlimit(syscall.RLIMIT_NOFILE, &rl) == nil {
			rl.Cur = 0
			if syscall.Setrlimit(syscall.RLIMIT_NOFILE, &rl) == nil {
				h.ctr.inc("nofile_rlimit_applied")
			}
		}
	}
	writeMarker("BEGIN")
	for i := range p.Ops {
		if h.aborted {
			break
		}
		h.step(i, &p.Ops[i])
	}
	writeMarker("END")

	if workerMode != "noref" {
		h.oraclePhase()
	}

	res := &RunResult{Seed: p.Seed, Engine: "hist", Prop: p.Prop, TraceHash: h.log.Hash(), Steps: h.log.Seq(), Ops: len(p.Ops),
		Checks: h.checks, Counters: h.ctr, Violations: h.viol, Nontrivial: h.nontriv, Distinct: map[string][]string{}, HarnessErr: h.harnessErr}
	for _, k := range sortedKeys(h.distinct) {
		res.Distinct[k] = sortedKeys(h.distinct[k])
	}
	for k, v := range oracleCounters {
		res.Counters[k] += v
	}
	if keepLog {
		res.Log = h.log.lines
	}
	if h.tmpDir != "" {
		os.RemoveAll(h.tmpDir)
	}
	return res
}

// doRegister registers a late probe lint in the global registry through the public API, in the
// middle of the history. From then on the model's global registry (and its aliases) holds it;
// registries filtered earlier do not.
// selNow is the selection a lint record keeps: the model's map itself, or a copy of it when the
// run registers lints later on (the global registry's selection then grows after the call).
func (h *histState) selNow(m *ModelReg) map[string]bool {
	if h.hasRegister < 0 {
		h.hasRegister = 0
		for _, op := range h.p.Ops {
			if op.K == "register" {
				h.hasRegister = 1
			}
		}
	}
	if h.hasRegister == 0 {
		return m.Sel
	}
	c := make(map[string]bool, len(m.Sel))
	for k, v := range m.Sel {
		c[k] = v
	}
	return c
}

func (h *histState) doRegister(i int, op *Op) {
	d, done, pan := registerLate(op.R)
	if pan != "" {
		// no property promises that registration after first use works; if it is refused the history simply goes on without it
		h.ctr.inc("late_registration_refused")
		h.log.Add("op %d register %s refused: %s", i, d.Name, clip(pan, 120))
		return
	}
	if !done {
		h.log.Add("op %d register %s: already registered in this process", i, d.Name)
		return
	}
	h.meta.addLate(d)
	h.mregs[0].Sel[d.Name] = true
	h.ctr.inc("late_registration/" + kindNames[d.Kind])
	// the listing line of the new lint, as the global registry prints it
	var sb strings.Builder
	lint.GlobalRegistry().WriteJSON(&sb)
	for _, ln := range strings.Split(strings.TrimSuffix(sb.String(), "\n"), "\n") {
		if strings.Contains(ln, `"name":"`+d.Name+`"`) {
			h.jsonLine[d.Name] = ln
		}
	}
	h.log.Add("op %d register %s kind=%s source=%s configurable=%v", i, d.Name, kindNames[d.Kind], d.Source, d.Configurable)
	if op.Fresh {
		// a second registration under the same name: rejected (the API documents a panic); whatever
		// happens, the registry must afterwards be what it was - the monitors after this op judge that
		if registerDuplicate(d) {
			h.ctr.inc("fault/duplicate_registration_rejected")
		} else {
			h.ctr.inc("duplicate_registration_not_rejected")
		}
		h.log.Add("op %d duplicate registration of %s attempted", i, d.Name)
	}
}

func (h *histState) setClock(t int64) {
	if !fineGrainBuild {
		h.aborted = true
		h.log.Add("harness: a clock op needs the zsim.fg build")
		h.harnessErr = "clock ops need the zsim.fg build"
		return
	}
	if h.clock != 0 && t < h.clock {
		h.ctr.inc("fault/clock_jump_backwards")
	}
	h.clock = t
	if h.clockReads == nil {
		h.clockReads = map[string]int{}
	}
	setSimClock(t, func(site string) { h.clockReads[site]++ })
	if !h.timersSet {
		h.timersSet = true
		early, _ := h.p.Knobs["timers_early"].(bool)
		if early {
			h.ctr.inc("fault/timers_fire_early")
		}
		setSimTimers(true, early, func(site string) {
			h.ctr.inc("timer_started/" + site)
			if early {
				h.ctr.inc("fault/timer_fired_early")
			}
		})
	}
}

func (h *histState) cfgReal(c int) lint.Configuration {
	if c < 0 {
		return h.emptyCfg
	}
	return h.cfgs[c].real
}

func (h *histState) cfgText(c int) string {
	if c < 0 {
		return ""
	}
	return h.cfgs[c].text
}

// step runs one op. Registry operations (everything but the lint-calling ops, which have their own per-call
// watchdog) are bounded too: a Filter, SetConfiguration, listing or lookup that has not returned after
// opHangLimit is a registry left unusable by what happened before - e.g. a lock still held by a call that
// returned an error.
func (h *histState) step(i int, op *Op) {
	switch op.K {
	case "lint", "repeat", "probe", "direct", "fresh", "clock", "gc", "loadcfg":
		h.stepInner(i, op)
		return
	}
	done := make(chan struct{})
	go func() {
		defer close(done)
		h.stepInner(i, op)
	}()
	select {
	case <-done:
	case <-time.After(opHangLimit):
		h.ctr.inc("op_hang")
		h.aborted = true
		h.opHung = true
		v := Violation{Property: "C08", Class: "registry_op_hang", Op: i, Site: op.K,
			Detail: fmt.Sprintf("the %s call of op %d on registry %d did not return within %v: an earlier operation of this history left the registry (or its configuration) unusable", op.K, i, op.Reg, opHangLimit)}
		h.violate(v)
		if op.K == "setcfg" || op.K == "getcfg" || op.K == "defaultcfg" {
			v.Property = "C11"
			h.violate(v)
		}
	}
}

func (h *histState) stepInner(i int, op *Op) {
	h.ctr.inc("op_" + op.K)
	pair := h.prevKind + ">" + op.K
	h.mark("op_pairs", pair)
	h.prevKind = op.K
	h.histHash = shortHash(h.histHash + "|" + mustJSON(op))
	switch op.K {
	case "lint":
		h.doLint(i, op)
	case "repeat":
		h.doRepeat(i, op)
	case "filter":
		h.doFilter(i, op)
	case "setcfg":
		if op.Cfg >= 0 && (!h.cfgs[op.Cfg].loaded || h.cfgs[op.Cfg].failed) {
			h.log.Add("op %d setcfg skipped: configuration %d not available", i, op.Cfg)
			break
		}
		h.regs[op.Reg].SetConfiguration(h.cfgReal(op.Cfg))
		h.mregs[op.Reg].Cfg = op.Cfg
		cls := "empty"
		if op.Cfg >= 0 {
			cls = h.cfgs[op.Cfg].spec.Class
		}
		h.ctr.inc("setcfg_class_" + cls)
		h.log.Add("op %d setcfg reg=%d cfg=%d class=%s", i, op.Reg, op.Cfg, cls)
	case "loadcfg":
		h.doLoadCfg(i, op)
	case "names", "sources", "byname", "bysource", "writejson", "getcfg", "observe":
		h.doRead(i, op)
	case "defaultcfg":
		h.doDefaultCfg(i, op)
	case "fresh":
		h.doFresh(i, op)
	case "register":
		h.doRegister(i, op)
	case "mkopts":
		// build filter options now, use them later
		if fo, err := op.Opts.real(); err == nil {
			if h.optPool == nil {
				h.optPool = map[string]*lint.FilterOptions{}
			}
			k := mustJSON(op.Opts)
			if _, ok := h.optPool[k]; !ok {
				h.optPool[k] = &fo
			}
			h.log.Add("op %d mkopts %s", i, op.Opts)
		}
	case "gc":
		runtime.GC()
		runtime.GC()
		h.ctr.inc("fault/forced_gc")
		h.log.Add("op %d gc", i)
	case "clock":
		h.setClock(op.T)
		h.ctr.inc("fault/clock_jump")
		h.log.Add("op %d clock -> %d", i, op.T)
	case "probe":
		h.doProbe(i, op)
	case "direct":
		h.doDirect(i, op)
	default:
		h.log.Add("op %d unknown kind %q ignored", i, op.K)
	}
	if !h.aborted {
		h.refine(i, op)
	}
}

// ---------------------------------------------------------------- linting

// lintCall performs one lint call on the chosen path and returns the
// canonical result plus the shape violations (C01) seen on the raw result.
func (h *histState) lintCall(i int, p *Parsed, reg lint.Registry, path string, perm uint64, sel map[string]bool) (cs *CanonSet, partial bool) {
	cs = &CanonSet{Results: map[string]Res{}}
	var rs *zlint.ResultSet
	call := func() {
		defer func() {
			if r := recover(); r != nil {
				cs.Panic = fmt.Sprint(r)
			}
		}()
		switch path {
		case "ex", "":
			switch p.Kind {
			case KCert:
				rs = zlint.LintCertificateEx(p.Cert, reg)
			case KCRL:
				rs = zlint.LintRevocationListEx(p.CRL, reg)
			case KOCSP:
				rs = zlint.LintOcspResponseEx(p.OCSP, reg)
			}
		case "global":
			switch p.Kind {
			case KCert:
				rs = zlint.LintCertificate(p.Cert)
			case KCRL:
				rs = zlint.LintRevocationList(p.CRL)
			case KOCSP:
				rs = zlint.LintOcspResponse(p.OCSP)
			}
		case "perlint":
			partial = true
			g := newRNG(perm)
			cfg := reg.GetConfiguration()
			switch p.Kind {
			case KCert:
				ls := reg.CertificateLints().Lints()
				for _, j := range g.Perm(len(ls)) {
					r := ls[j].Execute(p.Cert, cfg)
					cs.Results[ls[j].Name] = resOf(r)
				}
			case KCRL:
				ls := reg.RevocationListLints().Lints()
				for _, j := range g.Perm(len(ls)) {
					r := ls[j].Execute(p.CRL, cfg)
					cs.Results[ls[j].Name] = resOf(r)
				}
			case KOCSP:
				ls := reg.OcspResponseLints().Lints()
				for _, j := range g.Perm(len(ls)) {
					r := ls[j].Execute(p.OCSP, cfg)
					cs.Results[ls[j].Name] = resOf(r)
				}
			}
		case "depsource":
			// the deprecated Lint values handed out per source
			partial = true
			cfg := reg.GetConfiguration()
			srcs := map[string]bool{}
			for _, s := range reg.Sources() {
				srcs[string(s)] = true
			}
			for _, s := range sortedKeys(srcs) {
				for _, l := range reg.BySource(lint.LintSource(s)) {
					if l == nil {
						continue
					}
					cs.Results[l.Name] = resOf(l.Execute(p.Cert, cfg))
				}
			}
		case "deprecated":
			partial = true
			cfg := reg.GetConfiguration()
			for _, n := range reg.CertificateLints().Names() {
				l := reg.ByName(n)
				if l == nil {
					cs.Results[n] = Res{S: -2, D: "deprecated ByName returned nil"}
					continue
				}
				cs.Results[n] = resOf(l.Execute(p.Cert, cfg))
			}
		}
	}
	// bounded liveness, per call: the library call runs on its own goroutine; a call that has not
	// returned after opHangLimit (a full-registry lint takes milliseconds) is reported as a hang
	// and ends the run - nothing later in this process can be trusted to make progress
	done := make(chan struct{})
	go func() {
		defer close(done)
		call()
	}()
	select {
	case <-done:
	case <-time.After(opHangLimit):
		h.ctr.inc("op_hang")
		h.aborted = true
		h.violate(Violation{Property: "C01", Class: "hang", Op: i, Site: kindNames[p.Kind] + "/" + path,
			Detail: fmt.Sprintf("the %s lint call of op %d (path %q) did not return within %v", kindNames[p.Kind], i, path, opHangLimit)})
		if h.p.Prop == "C04" {
			// the life cycle never delivered the verdict it owes for this object
			h.violate(Violation{Property: "C04", Class: "no_verdict_hang", Op: i, Site: kindNames[p.Kind] + "/" + path,
				Detail: fmt.Sprintf("the %s lint call of op %d (path %q) did not return within %v: no lint of the call gets the result the life cycle owes it", kindNames[p.Kind], i, path, opHangLimit)})
		}
		// does the same call return when made alone in a fresh process? then it is what happened before
		// in this process that keeps it from returning
		if h.hangDER != nil && workerMode != "noref" && h.hangCfg != "" {
			// does the object alone, without any configuration, return? then it is the configuration that
			// keeps some lint from returning - an effect on lints the configuration may name, but must not block
			if R := ref(p.Kind, h.hangDER, "", nil, ""); !R.Hung && R.CfgErr == "" {
				h.violate(Violation{Property: "C11", Class: "hang_under_configuration", Op: i, Site: kindNames[p.Kind] + "/" + path,
					Detail: fmt.Sprintf("the %s lint call of op %d does not return under the configuration its registry holds, while the same object linted without a configuration does", kindNames[p.Kind], i)})
			}
		}
		if h.hangDER != nil && workerMode != "noref" {
			if R := ref(p.Kind, h.hangDER, h.hangCfg, nil, ""); !R.Hung && R.CfgErr == "" {
				h.violate(Violation{Property: "C05", Class: "hang_after_history", Op: i, Site: kindNames[p.Kind] + "/" + path,
					Detail: fmt.Sprintf("the %s lint call of op %d does not return after this history, while the same object linted alone in a fresh process does", kindNames[p.Kind], i)})
			}
		}
		return &CanonSet{Results: map[string]Res{}, Hung: true}, true
	}
	if h.clock != 0 {
		for _, site := range sortedKeys(h.clockReads) {
			h.ctr.add("clock_read/"+site, h.clockReads[site])
			delete(h.clockReads, site)
		}
		if rs != nil && rs.Timestamp == h.clock {
			h.ctr.inc("clock_seam_live")
		}
	}
	if partial || cs.Panic != "" {
		if cs.Panic != "" && p.Kind != KCert && scriptedPanicOfKind(p.Kind, sel) {
			// a probe of the CRL / OCSP kind was scripted to panic in this call: no containment is promised on those
			// paths, the stub's panic leaving the call is not the code's doing
			h.ctr.inc("fault/crl_ocsp_probe_panic_left_the_call")
		} else if cs.Panic != "" {
			h.ctr.inc("panic_reached_caller")
			h.violate(Violation{Property: "C01", Class: "panic_escaped", Op: i, Site: kindNames[p.Kind] + "/" + path,
				Detail: fmt.Sprintf("a panic reached the caller of the %s lint path %q: %s", kindNames[p.Kind], path, clip(cs.Panic, 300))})
		}
		return cs, partial
	}
	h.checkShape(i, rs, p.Kind, sel, cs)
	return cs, false
}

// beneathRule: is the statement being executed part of a rule (a lint's constructor, applicability test
// or body) or of a helper called by one? Helper statements reached from the framework itself (the scope
// gate) are not places where "a rule panics"; they are left alone.
func beneathRule(site string) bool {
	if !strings.HasPrefix(site, "util/") {
		return true
	}
	var pcs [48]uintptr
	n := runtime.Callers(3, pcs[:])
	frames := runtime.CallersFrames(pcs[:n])
	for {
		f, more := frames.Next()
		if strings.Contains(f.Function, "/v3/lints/") {
			return true
		}
		if !more {
			return false
		}
	}
}

// rawLint runs the lints of a registry over a certificate on the given path without any check
// (the counting pass of the panic injection).
func (h *histState) rawLint(p *Parsed, reg lint.Registry, path string, perm uint64) {
	if p.Kind != KCert {
		return
	}
	switch path {
	case "perlint":
		g := newRNG(perm)
		cfg := reg.GetConfiguration()
		ls := reg.CertificateLints().Lints()
		for _, j := range g.Perm(len(ls)) {
			ls[j].Execute(p.Cert, cfg)
		}
	case "deprecated":
		cfg := reg.GetConfiguration()
		for _, n := range reg.CertificateLints().Names() {
			if l := reg.ByName(n); l != nil {
				l.Execute(p.Cert, cfg)
			}
		}
	case "global":
		zlint.LintCertificate(p.Cert)
	default:
		zlint.LintCertificateEx(p.Cert, reg)
	}
}

func resOf(r *lint.LintResult) Res {
	if r == nil {
		return Res{S: -2, D: "<nil result>"}
	}
	return Res{S: int(r.Status), D: r.Details}
}

// checkShape is the C01 invariant monitor: complete, well-formed result set.
func (h *histState) checkShape(i int, rs *zlint.ResultSet, kind int, sel map[string]bool, cs *CanonSet) {
	v := func(class, lintName, detail string) {
		h.violate(Violation{Property: "C01", Class: class, Lint: lintName, Op: i, Detail: detail})
	}
	if rs == nil {
		cs.Nil = true
		v("nil_result_set", "", "Lint*Ex returned nil for a non-nil object")
		return
	}
	cs.Version = rs.Version
	cs.Flags = [4]bool{rs.NoticesPresent, rs.WarningsPresent, rs.ErrorsPresent, rs.FatalsPresent}
	var want []string
	for n := range sel {
		if h.meta.ByName[n].Kind == kind {
			want = append(want, n)
		}
	}
	sort.Strings(want)
	var got []string
	for n := range rs.Results {
		got = append(got, n)
	}
	sort.Strings(got)
	if !sameStrings(want, got) {
		v("result_keys", "", fmt.Sprintf("results are not exactly the %s lints of the registry used: %s", kindNames[kind], diffSets(want, got)))
	}
	var seen [8]bool
	for _, n := range got {
		r := rs.Results[n]
		if r == nil {
			v("nil_result", n, "result is nil")
			cs.Results[n] = Res{S: -2}
			continue
		}
		cs.Results[n] = Res{S: int(r.Status), D: r.Details}
		if m := h.meta.ByName[n]; m != nil {
			if !reflect.DeepEqual(r.LintMetadata, m.Meta) {
				v("bad_metadata", n, fmt.Sprintf("result carries metadata %+v, registered is %+v", r.LintMetadata, m.Meta))
			}
		}
		if h.curScriptBad[n] && (r.Status < lint.NA || r.Status > lint.Fatal) {
			// a stub scripted to misbehave (C04 pass-through): not counted against C01
		} else if r.Status < lint.NA || r.Status > lint.Fatal {
			v("bad_status", n, fmt.Sprintf("status %d is not one of the seven defined ones", int(r.Status)))
		} else {
			seen[int(r.Status)] = true
		}
	}
	exp := [4]bool{seen[int(lint.Notice)], seen[int(lint.Warn)], seen[int(lint.Error)], seen[int(lint.Fatal)]}
	if exp != cs.Flags {
		v("flag_mismatch", "", fmt.Sprintf("flags [notices warnings errors fatals]=%v but results contain %v", cs.Flags, exp))
	}
	mask := 0
	for b, f := range exp {
		if f {
			mask |= 1 << b
		}
	}
	h.ctr.inc(fmt.Sprintf("status_mix/%04b/%s", mask, kindNames[kind]))
	szc := "many"
	switch {
	case len(got) == 0:
		szc = "0"
	case len(got) == 1:
		szc = "1"
	case len(got) < 10:
		szc = "few"
	}
	h.mark("status_mix_cells", fmt.Sprintf("%s|%04b|%s", kindNames[kind], mask, szc))
	if rs.Version != h.libMajor {
		v("bad_version", "", fmt.Sprintf("version=%d, library major version is %d", rs.Version, h.libMajor))
	}
	h.checks++
}

func (h *histState) objectFor(op *Op) (*objState, *Parsed) {
	o := h.objs[op.Obj]
	if op.Fresh {
		pp, err := parseObj(o.spec.Kind, o.spec.DER)
		if err == nil {
			o.parsed = pp
			o.linted = false
			h.ctr.inc("fresh_twin")
		}
	} else if o.linted {
		h.ctr.inc("same_object_again")
	}
	return o, o.parsed
}

func (h *histState) doLint(i int, op *Op) {
	o, p := h.objectFor(op)
	path := op.Path
	if path == "global" && op.Reg != 0 {
		path = "ex"
	}
	if path == "deprecated" && o.spec.Kind != KCert {
		path = "ex"
	}
	m := h.mregs[op.Reg]
	injected := ""
	var arm func()
	if op.Inj != 0 && o.spec.Kind == KCert {
		if !fineGrainBuild {
			h.aborted, h.harnessErr = true, "panic injection needs the zsim.fg build"
			return
		}
		// pass 1, on a fresh twin: which statements of rule bodies and helpers does this call execute, how often?
		counts := map[string]int{}
		if twin, err := parseObj(o.spec.Kind, o.spec.DER); err == nil {
			setStmtHook(func(site string) {
				if beneathRule(site) {
					counts[site]++
				}
			})
			func() {
				defer func() { recover() }()
				h.rawLint(twin, h.regs[op.Reg], path, op.Perm)
			}()
			setStmtHook(nil)
		}
		if len(counts) > 0 {
			// pass 2, the op's own call: a seeded statement (drawn from the sorted set of executed sites, so
			// that the choice does not follow Go map iteration inside the code under test) panics at a
			// seeded occurrence - the first one for half of the draws
			sites := sortedKeys(counts)
			if (op.Inj>>39)&1 == 1 {
				// half of the draws aim at the shared helpers (where state shared between rules and calls would live)
				var helpers []string
				for _, s := range sites {
					if strings.HasPrefix(s, "util/") {
						helpers = append(helpers, s)
					}
				}
				if len(helpers) > 0 {
					sites = helpers
				}
			}
			target := sites[int(op.Inj%uint64(len(sites)))]
			occ := 0
			if (op.Inj>>40)&1 == 1 {
				occ = int((op.Inj >> 41) % uint64(counts[target]))
			}
			arm = func() {
				k := 0
				setStmtHook(func(site string) {
					if site != target || !beneathRule(site) {
						return
					}
					if k == occ {
						k++
						injected = site
						setStmtHook(nil)
						panic("zsim-injected-fault at " + site)
					}
					k++
				})
			}
			arm()
		}
	}
	h.hangDER, h.hangCfg = o.spec.DER, h.cfgText(m.Cfg)
	cs, partial := h.lintCall(i, p, h.regs[op.Reg], path, op.Perm, m.Sel)
	if op.Inj != 0 {
		setStmtHook(nil)
		if injected != "" && !cs.Hung && cs.Panic == "" {
			h.ctr.inc("fault/panic_injected_in_rule")
			h.mark("inject_sites", injected)
			// the same fault once more, on a fresh twin: what the caller gets back for a contained panic
			// (status and details of every lint) must not differ from one call to the next
			if twin, err := parseObj(o.spec.Kind, o.spec.DER); err == nil && !partial {
				first := injected
				arm()
				cs2, _ := h.lintCall(i, twin, h.regs[op.Reg], path, op.Perm, m.Sel)
				setStmtHook(nil)
				injected = first
				hit := func(c *CanonSet) string {
					for _, n := range sortedKeys(c.Results) {
						if c.Results[n].S == 7 && strings.Contains(c.Results[n].D, "zsim-injected-fault") {
							return n
						}
					}
					return ""
				}
				if f1, f2 := hit(cs), hit(cs2); f1 != f2 {
					// the occurrence chosen fell into another rule this time (map iteration inside the code under test)
					h.ctr.inc("fault_repeat_reached_other_rule")
				} else if !cs2.Hung && cs2.Panic == "" {
					h.checks++
					for _, n := range sortedKeys(cs.Results) {
						if r2, ok := cs2.Results[n]; ok && r2 != cs.Results[n] {
							h.violate(Violation{Property: "C05", Class: "fault_result_unstable", Lint: n, Op: i, Site: first,
								Detail:   "the same panic injected at " + first + " into the same call on a fresh twin of the object gave a different result for this lint",
								Expected: cs.Results[n].String(), Got: r2.String()})
							break
						}
					}
				}
			}
		} else if injected != "" {
			h.ctr.inc("fault/panic_injected_in_rule")
		} else {
			h.ctr.inc("panic_injection_not_reached")
		}
	}
	if cs.Hung {
		return
	}
	o.linted = true
	h.ctr.inc("lint_path_" + path)
	h.ctr.inc("lint_kind_" + kindNames[o.spec.Kind])
	rec := &lintRecord{op: i, obj: op.Obj, reg: op.Reg, cfg: m.Cfg, path: path, fresh: op.Fresh, canon: cs, partial: partial, sel: h.selNow(m), clock: h.clock, inject: injected}
	h.recs = append(h.recs, rec)
	h.log.Add("op %d lint obj=%d reg=%d path=%s fresh=%v cfg=%d inject=%s -> %s", i, op.Obj, op.Reg, path, op.Fresh, m.Cfg, injected, cs.hash())
	h.mark("history_prefix", h.histHash)
	h.mark("triples", fmt.Sprintf("%s|%s|%s", shortHash(string(o.spec.DER)), selKey(m.Sel), shortHash(h.cfgText(m.Cfg))))
	h.checkReadOnly(i, o)
}

func selKey(sel map[string]bool) string { return shortHash(strings.Join(sortedKeys(sel), ",")) }

// checkReadOnly: every exported field of the linted object equals that of a
// fresh parse of the same bytes (C05 read-only clause).
func (h *histState) checkReadOnly(i int, o *objState) {
	fp := exportedFingerprint(o.parsed.value())
	h.checks++
	if fp != o.freshFP {
		h.violate(Violation{Property: "C05", Class: "object_mutated", Op: i, Site: o.spec.ID,
			Detail: "an exported field of the linted object changed: " + firstDiff(o.freshFP, fp)})
		// continue with a fresh twin so that one mutation is reported once
		if pp, err := parseObj(o.spec.Kind, o.spec.DER); err == nil {
			o.parsed = pp
		}
	}
}

// doRepeat: repetition without history (map-iteration class): R lint calls in
// place, every result must equal the first.
func (h *histState) doRepeat(i int, op *Op) {
	o := h.objs[op.Obj]
	m := h.mregs[op.Reg]
	var first *CanonSet
	bad := map[string]bool{}
	clock0 := h.clock
	for k := 0; k < op.R; k++ {
		if k > 0 && op.T != 0 && h.clock != 0 {
			// the clock moves between repetitions
			if t := h.clock + op.T; t > 0 {
				h.setClock(t)
				h.ctr.inc("fault/clock_advance_between_repetitions")
			}
		}
		cs, _ := h.lintCall(i, o.parsed, h.regs[op.Reg], "ex", 0, m.Sel)
		if cs.Hung {
			return
		}
		if first == nil {
			first = cs
			continue
		}
		for _, n := range sortedKeys(cs.Results) {
			if clockExempt[n] && h.clock != clock0 {
				continue // the two lints that read today's TLD table may follow the clock
			}
			if cs.Results[n] != first.Results[n] && !bad[n] {
				bad[n] = true
				if h.clock != clock0 {
					h.violate(Violation{Property: "C05", Class: "clock_dep", Lint: n, Op: i,
						Detail:   fmt.Sprintf("repetition %d of the same call on the same object differs from the first after the clock moved from %d to %d; only the two TLD-table lints may read the clock", k, clock0, h.clock),
						Expected: first.Results[n].String(), Got: cs.Results[n].String()})
					continue
				}
				h.violate(Violation{Property: "C05", Class: "nondet_repeat", Lint: n, Op: i,
					Detail:   fmt.Sprintf("repetition %d of the same call on the same object differs from the first", k),
					Expected: first.Results[n].String(), Got: cs.Results[n].String()})
			}
		}
	}
	o.linted = true
	h.checks += op.R
	h.ctr.add("repeat_calls", op.R)
	if first != nil {
		h.recs = append(h.recs, &lintRecord{op: i, obj: op.Obj, reg: op.Reg, cfg: m.Cfg, path: "ex", canon: first, sel: h.selNow(m), clock: clock0})
		h.log.Add("op %d repeat obj=%d reg=%d R=%d -> %s unstable=%d", i, op.Obj, op.Reg, op.R, first.hash(), len(bad))
	}
	h.checkReadOnly(i, o)
}

// ---------------------------------------------------------------- registry ops

func (h *histState) doFilter(i int, op *Op) {
	parent := h.regs[op.Reg]
	pm := h.mregs[op.Reg]
	v := modelFilter(h.meta, pm, op.Opts)
	// options built earlier in the history (mkopts) are used as the objects they are: they may have
	// been built side by side with other options from the same profiles, and they are used again
	var fo lint.FilterOptions
	var err error
	if pooled, ok := h.optPool[mustJSON(op.Opts)]; ok {
		fo = *pooled
		h.ctr.inc("filter_with_prebuilt_options")
	} else {
		fo, err = op.Opts.real()
	}
	if err != nil {
		h.log.Add("op %d filter: regexp in plan does not compile: %v", i, err)
		h.aborted = true
		return
	}
	var child lint.Registry
	var ferr error
	var pan string
	func() {
		defer func() {
			if r := recover(); r != nil {
				pan = fmt.Sprint(r)
			}
		}()
		child, ferr = parent.Filter(fo)
	}()
	if _, pooled := h.optPool[mustJSON(op.Opts)]; !pooled && i%3 != 2 && len(op.Opts.Profiles) == 0 {
		// the caller reuses its buffers once the call has returned: the lists it passed now hold other names
		// (the options were passed by value, the lists inside them were not copied by the language)
		scribble := func(l []string) {
			for k := range l {
				l[k] = "zsim-caller-reused-this-slot"
			}
		}
		scribble(fo.IncludeNames)
		scribble(fo.ExcludeNames)
		for k := range fo.IncludeSources {
			fo.IncludeSources[k] = lint.LintSource("zsim-reused")
		}
		for k := range fo.ExcludeSources {
			fo.ExcludeSources[k] = lint.LintSource("zsim-reused")
		}
		h.ctr.inc("fault/caller_reuses_option_lists_after_filter")
	}
	if pan != "" {
		h.violate(Violation{Property: "C08", Class: "filter_panic", Op: i, Detail: "Filter panicked: " + clip(pan, 200)})
		h.aborted = true
		return
	}
	h.checks++
	if len(op.Opts.Profiles) > 0 {
		h.ctr.inc("filter_with_profile")
		if name, ok := profilesIntact(); !ok {
			h.violate(Violation{Property: "C08", Class: "profile_mutated", Op: i, Site: name,
				Detail: "after a Filter whose options had a profile added (AddProfile), the registered profile " + name + " no longer lists the lint names it was registered with"})
		}
	}
	if v.Err {
		h.ctr.inc("filter_error_expected")
		if ferr == nil {
			h.violate(Violation{Property: "C08", Class: "filter_error_missing", Op: i,
				Detail: fmt.Sprintf("Filter accepted options the documentation rejects (%s): %s", v.Why, op.Opts)})
			h.aborted = true
			return
		}
		h.log.Add("op %d filter reg=%d -> error (as documented: %s)", i, op.Reg, v.Why)
		h.mark("filter_shapes", filterShape(op.Opts, v))
		h.mark("filter_shapes_seeded", shortHash(fmt.Sprintf("%d|%d|%s", h.p.Seed, i, filterShape(op.Opts, v))))
		return
	}
	if ferr != nil {
		h.violate(Violation{Property: "C08", Class: "filter_error_unexpected", Op: i,
			Detail: fmt.Sprintf("Filter rejected valid options %s: %v", op.Opts, ferr)})
		h.aborted = true
		return
	}
	if child == nil {
		h.violate(Violation{Property: "C08", Class: "filter_nil", Op: i, Detail: "Filter returned a nil registry without an error"})
		h.aborted = true
		return
	}
	var cm *ModelReg
	if v.Alias && child == parent {
		cm = pm // the receiver itself: one object, two names
		h.ctr.inc("filter_alias")
	} else {
		cm = &ModelReg{Sel: v.Sel, Cfg: pm.Cfg}
		if v.Alias {
			h.ctr.inc("filter_empty_copy")
		}
	}
	h.regs = append(h.regs, child)
	h.mregs = append(h.mregs, cm)
	depth := 1
	h.ctr.inc("filter_ok")
	if op.Reg != 0 {
		h.ctr.inc("nested_filter")
		depth = 2
	}
	_ = depth
	if len(v.Sel) == 0 {
		h.ctr.inc("filter_empty_selection")
	}
	h.log.Add("op %d filter reg=%d %s -> reg %d with %d lints", i, op.Reg, op.Opts, len(h.regs)-1, len(v.Sel))
	h.mark("filter_shapes", filterShape(op.Opts, v))
	h.mark("filter_shapes_seeded", shortHash(fmt.Sprintf("%d|%d|%s", h.p.Seed, i, filterShape(op.Opts, v))))
	h.checkChild(i, len(h.regs)-1, op.Reg)
}

func filterShape(o *FilterOpts, v filterVerdict) string {
	b := func(x bool) string {
		if x {
			return "1"
		}
		return "0"
	}
	return "re" + b(o.NameFilter != nil) + "in" + b(len(o.IncludeNames) > 0) + "pr" + b(len(o.Profiles) > 0) + "ex" + b(len(o.ExcludeNames) > 0) +
		"is" + b(len(o.IncludeSources) > 0) + "es" + b(len(o.ExcludeSources) > 0) + "err" + b(v.Err) + "empty" + b(len(v.Sel) == 0)
}

// checkChild: the freshly filtered registry keeps kind and metadata of every
// selected lint, offers nothing else, and carries the parent's configuration.
func (h *histState) checkChild(i, ci, pi int) {
	child := h.regs[ci]
	cm := h.mregs[ci]
	bad := func(class, lintName, detail string) {
		h.violate(Violation{Property: "C08", Class: class, Lint: lintName, Op: i, Detail: detail})
	}
	// lookups by name, all three kinds, for every global name
	for _, n := range h.meta.Names {
		m := h.meta.ByName[n]
		var gotMeta *lint.LintMetadata
		kinds := 0
		if l := child.CertificateLints().ByName(n); l != nil {
			kinds |= 1
			gotMeta = &l.LintMetadata
		}
		if l := child.RevocationListLints().ByName(n); l != nil {
			kinds |= 2
			gotMeta = &l.LintMetadata
		}
		if l := child.OcspResponseLints().ByName(n); l != nil {
			kinds |= 4
			gotMeta = &l.LintMetadata
		}
		if !cm.Sel[n] {
			if kinds != 0 {
				bad("lookup_extra", n, "ByName finds a lint that the options do not select")
			}
			continue
		}
		wantKind := []int{1, 2, 4}[m.Kind]
		if kinds != wantKind {
			bad("kind_changed", n, fmt.Sprintf("selected %s lint is found under lookups mask %03b", kindNames[m.Kind], kinds))
			continue
		}
		if !reflect.DeepEqual(*gotMeta, m.Meta) {
			bad("metadata_changed", n, fmt.Sprintf("filtered registry holds metadata %+v, source holds %+v", *gotMeta, m.Meta))
		}
		if m.Kind == KCert {
			d := child.ByName(n)
			if d == nil || d.Name != n || string(d.Source) != m.Source || d.Description != m.Meta.Description || d.Citation != m.Meta.Citation ||
				!d.EffectiveDate.Equal(m.Eff) || !d.IneffectiveDate.Equal(m.Ineff) || d.Lint == nil {
				bad("deprecated_lookup", n, "deprecated ByName disagrees with the certificate lookup")
			}
		} else if child.ByName(n) != nil {
			bad("deprecated_lookup", n, "deprecated ByName returns a non-certificate lint")
		}
	}
	// lookups by source
	for _, s := range append(h.meta.sources(), "Unknown") {
		var want [3][]string
		for _, n := range cm.names() {
			m := h.meta.ByName[n]
			if m.Source == s {
				want[m.Kind] = append(want[m.Kind], n)
			}
		}
		var got [3][]string
		for _, l := range child.CertificateLints().BySource(lint.LintSource(s)) {
			got[KCert] = append(got[KCert], l.Name)
		}
		for _, l := range child.RevocationListLints().BySource(lint.LintSource(s)) {
			got[KCRL] = append(got[KCRL], l.Name)
		}
		for _, l := range child.OcspResponseLints().BySource(lint.LintSource(s)) {
			got[KOCSP] = append(got[KOCSP], l.Name)
		}
		var dep []string
		for _, l := range child.BySource(lint.LintSource(s)) {
			dep = append(dep, l.Name)
		}
		for k := 0; k < 3; k++ {
			if !sameStrings(sortedCopy(want[k]), sortedCopy(got[k])) {
				bad("by_source", "", fmt.Sprintf("%s lints of source %s: %s", kindNames[k], s, diffSets(want[k], got[k])))
			}
		}
		if !sameStrings(sortedCopy(want[KCert]), sortedCopy(dep)) {
			bad("by_source", "", fmt.Sprintf("deprecated BySource(%s): %s", s, diffSets(want[KCert], dep)))
		}
	}
	h.checks++
}

// refine compares every registry created so far with its model state: names,
// per-kind lists, sources, listing and configuration. Because the model of a
// registry changes only through SetConfiguration on that registry, this is
// also the "source registry left unchanged" check.
func (h *histState) refine(i int, op *Op) {
	full := h.p.Prop == "C08" || op.K == "filter" || op.K == "setcfg" || op.K == "observe"
	for ri, r := range h.regs {
		m := h.mregs[ri]
		touched := ri == op.Reg || ri == len(h.regs)-1
		bad := func(class, detail string) {
			h.violate(Violation{Property: "C08", Class: class, Op: i, Site: fmt.Sprintf("reg%d", ri),
				Detail: fmt.Sprintf("after op %d (%s on reg %d), registry %d: %s", i, op.K, op.Reg, ri, detail)})
		}
		names := r.Names()
		if !sameStrings(names, m.names()) {
			bad("names", "Names() differs from the documented selection: "+diffSets(m.names(), names))
			continue
		}
		if !reflect.DeepEqual(r.GetConfiguration(), h.cfgReal(m.Cfg)) {
			h.violate(Violation{Property: "C11", Class: "cfg_leak_between_registries", Op: i, Site: fmt.Sprintf("reg%d", ri),
				Detail: fmt.Sprintf("after op %d (%s on reg %d), registry %d does not hold configuration %d it was given/inherited", i, op.K, op.Reg, ri, m.Cfg)})
			bad("configuration", fmt.Sprintf("GetConfiguration() is not the configuration %d the model predicts (inherited at filter time / set later)", m.Cfg))
		}
		h.checks++
		if !(full && (touched || h.p.Prop == "C08")) {
			continue
		}
		o := observe(r)
		for k := 0; k < 3; k++ {
			want := m.namesOfKind(h.meta, k)
			if !sameStrings(o.KindNames[k], want) {
				bad("kind_names", fmt.Sprintf("%s Names(): %s", kindNames[k], diffSets(want, o.KindNames[k])))
			}
			if !sameStrings(sortedCopy(o.KindLints[k]), want) {
				bad("kind_lints", fmt.Sprintf("%s Lints(): %s", kindNames[k], diffSets(want, o.KindLints[k])))
			}
			var ws []string
			set := map[string]bool{}
			for _, n := range want {
				set[h.meta.ByName[n].Source] = true
			}
			ws = sortedKeys(set)
			if !sameStrings(dedup(o.KindSrc[k]), ws) {
				bad("kind_sources", fmt.Sprintf("%s Sources(): want %v got %v", kindNames[k], ws, o.KindSrc[k]))
			}
		}
		if !sameStrings(dedup(o.Sources), m.sourceSet(h.meta)) || len(dedup(o.Sources)) != len(o.Sources) {
			bad("sources", fmt.Sprintf("Sources(): want %v got %v", m.sourceSet(h.meta), o.Sources))
		}
		var wantLines []string
		for _, n := range m.names() {
			wantLines = append(wantLines, h.jsonLine[n])
		}
		if !sameStrings(sortedCopy(o.JSONLines), sortedCopy(wantLines)) {
			bad("listing", "WriteJSON lines are not those of the selected lints: "+clip(diffSets(wantLines, o.JSONLines), 400))
		}
		h.checks++
	}
}

func dedup(xs []string) []string {
	var out []string
	for i, x := range xs {
		if i == 0 || x != xs[i-1] {
			out = append(out, x)
		}
	}
	return out
}

func (h *histState) doRead(i int, op *Op) {
	r := h.regs[op.Reg]
	m := h.mregs[op.Reg]
	switch op.K {
	case "names":
		h.log.Add("op %d names reg=%d -> %d %s", i, op.Reg, len(r.Names()), shortHash(strings.Join(r.Names(), ",")))
	case "sources":
		var ss []string
		for _, s := range r.Sources() {
			ss = append(ss, string(s))
		}
		sort.Strings(ss)
		h.log.Add("op %d sources reg=%d -> %v", i, op.Reg, ss)
	case "byname":
		l := r.ByName(op.Name)
		mm := h.meta.ByName[op.Name]
		want := m.Sel[op.Name] && mm != nil && mm.Kind == KCert
		h.checks++
		if (l != nil) != want {
			h.violate(Violation{Property: "C08", Class: "deprecated_lookup", Lint: op.Name, Op: i,
				Detail: fmt.Sprintf("ByName(%q) found=%v, documented selection says %v", op.Name, l != nil, want)})
		}
		h.log.Add("op %d byname reg=%d %q -> %v", i, op.Reg, op.Name, l != nil)
	case "bysource":
		var got []string
		for _, l := range r.BySource(lint.LintSource(op.Source)) {
			got = append(got, l.Name)
		}
		sort.Strings(got)
		h.log.Add("op %d bysource reg=%d %s -> %d", i, op.Reg, op.Source, len(got))
	case "writejson":
		var sb strings.Builder
		r.WriteJSON(&sb)
		h.log.Add("op %d writejson reg=%d -> %d bytes %s", i, op.Reg, sb.Len(), shortHash(sb.String()))
	case "getcfg":
		c := r.GetConfiguration()
		h.log.Add("op %d getcfg reg=%d -> matches model=%v", i, op.Reg, reflect.DeepEqual(c, h.cfgReal(m.Cfg)))
	case "observe":
		h.log.Add("op %d observe reg=%d -> %s", i, op.Reg, observe(r).hash())
	}
}

// ---------------------------------------------------------------- configuration ops

func (h *histState) doLoadCfg(i int, op *Op) {
	c := h.cfgs[op.Cfg]
	s := c.spec
	c.loaded = true
	var cfg lint.Configuration
	var err error
	var pan string
	via := s.Via
	if via == "" {
		via = "string"
	}
	func() {
		defer func() {
			if r := recover(); r != nil {
				pan = fmt.Sprint(r)
			}
		}()
		switch via {
		case "string":
			cfg, err = lint.NewConfigFromString(s.Text)
		case "reader":
			fr := &faultReader{data: []byte(s.Text), f: *s.Fault, fired: h.ctr}
			cfg, err = lint.NewConfig(fr)
		case "file", "file_missing", "file_dir", "fifo":
			if h.tmpDir == "" {
				h.tmpDir = filepath.Join(verifRoot(), "work", "tmp", fmt.Sprintf("w%d", os.Getpid()))
				os.MkdirAll(h.tmpDir, 0o755)
			}
			path := filepath.Join(h.tmpDir, fmt.Sprintf("cfg%d.toml", op.Cfg))
			switch via {
			case "file":
				d, _ := deliveredBytes(s.Text, s.Fault)
				if werr := os.WriteFile(path, []byte(d), 0o644); werr != nil {
					die(2, "cannot write scratch configuration: %v", werr)
				}
				if d != s.Text {
					h.ctr.inc("file_truncated")
				} else {
					h.ctr.inc("file_whole")
				}
			case "fifo":
				path = filepath.Join(h.tmpDir, fmt.Sprintf("cfg%d-%d.fifo", op.Cfg, i))
				if merr := syscall.Mkfifo(path, 0o644); merr != nil {
					die(2, "cannot make a named pipe: %v", merr)
				}
				d, _ := deliveredBytes(s.Text, s.Fault)
				chunk := 64
				if len(s.Fault.Chunks) > 0 && s.Fault.Chunks[0] > 0 {
					chunk = s.Fault.Chunks[0]
				}
				go func() {
					// the writer end: opens once the reader has, writes the delivered bytes chunk by chunk, closes
					w, werr := os.OpenFile(path, os.O_WRONLY, 0)
					if werr != nil {
						return
					}
					defer w.Close()
					for pos := 0; pos < len(d); pos += chunk {
						end := pos + chunk
						if end > len(d) {
							end = len(d)
						}
						if _, werr := w.Write([]byte(d[pos:end])); werr != nil {
							return
						}
					}
				}()
				h.ctr.inc("fault/config_through_named_pipe")
				if d != s.Text {
					h.ctr.inc("fault/named_pipe_writer_died_early")
				}
			case "file_missing":
				path = filepath.Join(h.tmpDir, "does-not-exist.toml")
				h.ctr.inc("file_missing")
			case "file_dir":
				path = h.tmpDir
				h.ctr.inc("file_is_directory")
			}
			cfg, err = lint.NewConfigFromFile(path)
		}
	}()
	h.ctr.inc("loadcfg_via_" + via)
	h.checks++
	if pan != "" {
		h.violate(Violation{Property: "C11", Class: "load_panic", Op: i, Site: via, Detail: "loading a configuration panicked: " + clip(pan, 200)})
		c.failed = true
		return
	}
	if s.ExpectErr {
		if err == nil {
			h.violate(Violation{Property: "C11", Class: "load_fault_accepted", Op: i, Site: via,
				Detail: fmt.Sprintf("a configuration was returned although the transport failed or delivered an invalid document (fault=%s, delivered %d of %d bytes)", mustJSON(s.Fault), len(s.Delivered), len(s.Text))})
		}
		c.failed = true
		h.ctr.inc("loadcfg_failed_as_expected")
		h.log.Add("op %d loadcfg cfg=%d via=%s -> error=%v (expected)", i, op.Cfg, via, err != nil)
		return
	}
	if err != nil {
		h.violate(Violation{Property: "C11", Class: "load_rejected", Op: i, Site: via,
			Detail: fmt.Sprintf("a valid configuration delivered completely was rejected: %v (fault=%s)", err, mustJSON(s.Fault))})
		c.failed = true
		return
	}
	c.real = cfg
	c.text = s.Text
	if s.Fault != nil {
		c.text = s.Delivered
		// the configuration obtained must be the one the delivered bytes denote
		want, werr := lint.NewConfigFromString(s.Delivered)
		if werr != nil || !reflect.DeepEqual(want, cfg) {
			h.violate(Violation{Property: "C11", Class: "load_wrong_content", Op: i, Site: via,
				Detail: fmt.Sprintf("configuration loaded through a chunked/torn transport differs from the one denoted by the %d bytes delivered (fault=%s)", len(s.Delivered), mustJSON(s.Fault))})
		}
	}
	h.log.Add("op %d loadcfg cfg=%d class=%s via=%s -> ok (%d bytes denote it)", i, op.Cfg, s.Class, via, len(c.text))
}

// doDefaultCfg: the generated example is valid TOML and has a table for every
// configurable lint of the registry.
func (h *histState) doDefaultCfg(i int, op *Op) {
	r := h.regs[op.Reg]
	m := h.mregs[op.Reg]
	b, err := r.DefaultConfiguration()
	h.checks++
	bad := func(class, lintName, detail string) {
		h.violate(Violation{Property: "C11", Class: class, Lint: lintName, Op: i, Detail: detail})
	}
	if err != nil {
		bad("example_error", "", "DefaultConfiguration failed: "+err.Error())
		return
	}
	tree, terr := tomlLoad(string(b))
	if terr != nil {
		bad("example_not_toml", "", "the example configuration is not valid TOML: "+terr.Error())
		return
	}
	for _, n := range m.names() {
		if !h.meta.ByName[n].Configurable {
			continue
		}
		if !tomlHasTable(tree, n) {
			bad("example_missing_section", n, "the example configuration has no table for this configurable lint")
		}
	}
	h.log.Add("op %d defaultcfg reg=%d -> %d bytes %s", i, op.Reg, len(b), shortHash(string(bytes.TrimSpace(b))))
	// the caller keeps what it was given: the bytes of every earlier example must still be what they were
	// (a buffer handed out and then reused for the next document would rewrite them behind the caller's back)
	for _, k := range h.keptExamples {
		h.checks++
		if string(k.orig) != k.copy {
			bad("example_bytes_changed_later", "", fmt.Sprintf("the example configuration returned by op %d was changed in place by the DefaultConfiguration call of op %d", k.op, i))
		}
	}
	if len(h.keptExamples) < 8 {
		h.keptExamples = append(h.keptExamples, keptExample{op: i, orig: b, copy: string(b)})
	}
}

type keptExample struct {
	op   int
	orig []byte
	copy string
}

// doFresh: the registered constructor hands out independent instances. For
// every configurable lint of the registry: configuring one instance with
// non-default option values must leave the next constructed instance (and an
// earlier one) at the constructor's defaults.
func (h *histState) doFresh(i int, op *Op) {
	reg := h.regs[op.Reg]
	m := h.mregs[op.Reg]
	n := 0
	for _, name := range m.names() {
		mm := h.meta.ByName[name]
		if !mm.Configurable {
			continue
		}
		ctor := func() any {
			switch mm.Kind {
			case KCert:
				if l := reg.CertificateLints().ByName(name); l != nil {
					return l.Lint()
				}
			case KCRL:
				if l := reg.RevocationListLints().ByName(name); l != nil {
					return l.Lint()
				}
			case KOCSP:
				if l := reg.OcspResponseLints().ByName(name); l != nil {
					return l.Lint()
				}
			}
			return nil
		}
		a := ctor()
		ac, ok := a.(lint.Configurable)
		if !ok {
			continue
		}
		def := exportedFingerprint(ac.Configure())
		// a configuration that moves every option away from its default
		var sb strings.Builder
		fmt.Fprintf(&sb, "[%s]\n", name)
		v := reflect.Indirect(reflect.ValueOf(ac.Configure()))
		for _, f := range configurableFields(name) {
			fv := fieldByTOMLName(v, f.Name)
			switch f.Kind {
			case "bool":
				fmt.Fprintf(&sb, "%s = %v\n", f.Name, !(fv.IsValid() && fv.Bool()))
			case "int":
				x := int64(17)
				if fv.IsValid() && fv.CanInt() {
					x = fv.Int() + 17
				}
				fmt.Fprintf(&sb, "%s = %d\n", f.Name, x)
			case "string":
				fmt.Fprintf(&sb, "%s = \"zsim-not-the-default\"\n", f.Name)
			}
		}
		cfg, err := lint.NewConfigFromString(sb.String())
		if err != nil {
			continue
		}
		b := ctor()
		if err := cfg.MaybeConfigure(b, name); err != nil {
			continue
		}
		moved := exportedFingerprint(b.(lint.Configurable).Configure()) != def
		c := ctor()
		n++
		h.checks++
		after := exportedFingerprint(c.(lint.Configurable).Configure())
		still := exportedFingerprint(ac.Configure())
		if after != def || still != def {
			d := "an instance constructed after another instance was configured with non-default options does not start from the constructor's defaults"
			if still != def {
				d = "configuring one instance changed the option values of another instance handed out by the same constructor"
			}
			h.violate(Violation{Property: "C11", Class: "instance_not_fresh", Lint: name, Op: i, Detail: d + " (configuration leaks between runs)", Expected: clip(def, 200), Got: clip(after+" / "+still, 300)})
			h.violate(Violation{Property: "C05", Class: "instance_retained", Lint: name, Op: i, Detail: d + " (a later lint call depends on an earlier one)", Expected: clip(def, 200), Got: clip(after+" / "+still, 300)})
			h.violate(Violation{Property: "C04", Class: "instance_not_fresh", Lint: name, Op: i, Detail: d, Expected: clip(def, 200), Got: clip(after+" / "+still, 300)})
		}
		if moved {
			h.ctr.inc("fresh_instances_options_moved")
		}
	}
	h.log.Add("op %d fresh reg=%d -> %d configurable lints checked", i, op.Reg, n)
}

func fieldByTOMLName(v reflect.Value, key string) reflect.Value {
	if v.Kind() != reflect.Struct {
		return reflect.Value{}
	}
	t := v.Type()
	for i := 0; i < t.NumField(); i++ {
		f := t.Field(i)
		name := f.Name
		if tag := f.Tag.Get("toml"); tag != "" && tag != "-" {
			name = strings.Split(tag, ",")[0]
		}
		if name == key {
			return v.Field(i)
		}
	}
	return reflect.Value{}
}

// scriptedPanicOfKind: does the script of the op in progress make a selected probe of this kind panic?
func scriptedPanicOfKind(kind int, sel map[string]bool) bool {
	for n, a := range curScript {
		if a.Panic != "" && sel[n] && probeByName[n] != nil && probeByName[n].Kind == kind {
			return true
		}
	}
	return false
}
