package main

// Configuration workload for C11 (and as diversity for the other HIST checks):
// classes neutral / example / option-setting / ill-typed / odd, plus the
// fault-injecting transports (reader, file) a configuration arrives through.

import (
	"errors"
	"fmt"
	"io"
	"reflect"
	"sort"
	"strings"

	toml "github.com/pelletier/go-toml"
	"github.com/zmap/zlint/v3/lint"
)

type optField struct {
	Name string
	Kind string // bool | int | string
}

// configurableFields discovers, through the public constructor and the public
// Configurable interface, the option fields of a configurable lint.
func configurableFields(name string) []optField {
	var inst any
	g := lint.GlobalRegistry()
	if l := g.CertificateLints().ByName(name); l != nil {
		inst = l.Lint()
	} else if l := g.RevocationListLints().ByName(name); l != nil {
		inst = l.Lint()
	} else if l := g.OcspResponseLints().ByName(name); l != nil {
		inst = l.Lint()
	}
	c, ok := inst.(lint.Configurable)
	if !ok {
		return nil
	}
	v := reflect.Indirect(reflect.ValueOf(c.Configure()))
	if v.Kind() != reflect.Struct {
		return nil
	}
	var out []optField
	for i := 0; i < v.NumField(); i++ {
		f := v.Type().Field(i)
		if f.PkgPath != "" {
			continue
		}
		key := f.Name
		if tag := f.Tag.Get("toml"); tag != "" && tag != "-" {
			key = strings.Split(tag, ",")[0]
		}
		switch f.Type.Kind() {
		case reflect.Bool:
			out = append(out, optField{key, "bool"})
		case reflect.Int, reflect.Int64, reflect.Int32, reflect.Uint, reflect.Uint64:
			out = append(out, optField{key, "int"})
		case reflect.String:
			out = append(out, optField{key, "string"})
		}
	}
	return out
}

func configurableNames(meta *MetaTable, realOnly bool) []string {
	var out []string
	for _, n := range meta.Names {
		m := meta.ByName[n]
		if m.Configurable && (!realOnly || !m.Probe) {
			out = append(out, n)
		}
	}
	return out
}

func legalValue(g *RNG, f optField) string {
	switch f.Kind {
	case "bool":
		return fmt.Sprint(g.Chance(0.5))
	case "int":
		switch g.Intn(4) {
		case 0:
			return fmt.Sprint(g.Range(-5, 5))
		case 1:
			return fmt.Sprint(g.Range(0, 200))
		default:
			return fmt.Sprint(g.Range(0, 5000))
		}
	}
	if g.Chance(0.7) {
		// words that mean something somewhere in the framework: status labels, sources, booleans and numbers as text
		return fmt.Sprintf("%q", pick(g, []string{"reserved", "NA", "NE", "pass", "info", "notice", "warn", "error", "fatal", "Reserved", "ERROR", " warn ",
			"CABF_BR", "RFC5280", "true", "false", "0", "-1", "", "default"}))
	}
	return fmt.Sprintf("%q", "v"+fmt.Sprint(g.Intn(1000)))
}

func wrongValue(g *RNG, f optField) string {
	switch f.Kind {
	case "bool":
		return pick(g, []string{`"yes"`, "1", "[true]"})
	case "int":
		return pick(g, []string{`"many"`, "true", "[1, 2]"})
	}
	return pick(g, []string{"7", "false"})
}

// flippedSection moves every option of a lint away from the constructor's
// default (booleans negated, integers to 0 or default+17, strings changed): the
// values most likely to change the lint's verdict.
func flippedSection(g *RNG, name string) string {
	var inst any
	r := lint.GlobalRegistry()
	if l := r.CertificateLints().ByName(name); l != nil {
		inst = l.Lint()
	} else if l := r.RevocationListLints().ByName(name); l != nil {
		inst = l.Lint()
	} else if l := r.OcspResponseLints().ByName(name); l != nil {
		inst = l.Lint()
	}
	c, ok := inst.(lint.Configurable)
	if !ok {
		return ""
	}
	v := reflect.Indirect(reflect.ValueOf(c.Configure()))
	var sb strings.Builder
	fmt.Fprintf(&sb, "[%s]\n", name)
	for _, f := range configurableFields(name) {
		fv := fieldByTOMLName(v, f.Name)
		switch f.Kind {
		case "bool":
			fmt.Fprintf(&sb, "%s = %v\n", f.Name, !(fv.IsValid() && fv.Bool()))
		case "int":
			x := int64(0)
			if fv.IsValid() && fv.CanInt() && fv.Int() == 0 || g.Chance(0.3) {
				x = 17
				if fv.IsValid() && fv.CanInt() {
					x += fv.Int()
				}
			}
			fmt.Fprintf(&sb, "%s = %d\n", f.Name, x)
		case "string":
			fmt.Fprintf(&sb, "%s = \"flipped-%d\"\n", f.Name, g.Intn(100))
		}
	}
	return sb.String()
}

func legalSection(g *RNG, name string, fields []optField) string {
	if g.Chance(0.45) {
		if s := flippedSection(g, name); s != "" {
			return s
		}
	}
	var sb strings.Builder
	fmt.Fprintf(&sb, "[%s]\n", name)
	for _, f := range fields {
		if g.Chance(0.65) {
			key := f.Name
			if !isProbeName(name) && g.Chance(0.15) {
				// the option's key in one of the other spellings the loader matches to an untagged field
				key = pick(g, []string{strings.ToLower(key), strings.ToUpper(key), strings.ToLower(key[:1]) + key[1:]})
			}
			fmt.Fprintf(&sb, "%s = %s\n", key, legalValue(g, f))
		}
	}
	return sb.String()
}

var neutralSectionNames = []string{
	"zz_unrelated", "e_no_such_lint", "Global", "RFC5280Config", "CABFBaselineRequirementsConfig",
	"CommunityConfig", "MozillaRootStorePolicyConfig", "AppleRootStorePolicyConfig", "w_other_tool", "Zlint",
}

func neutralText(g *RNG) string {
	switch g.Intn(5) {
	case 0:
		return ""
	case 1:
		return "# only a comment\n"
	}
	var sb strings.Builder
	if g.Chance(0.3) {
		fmt.Fprintf(&sb, "some_top_level_key = %d\n", g.Intn(100))
	}
	if g.Chance(0.4) {
		// top-level keys that happen to be called like some lint's option: still nobody's section
		sb.WriteString(pick(g, []string{"Rounds = 0\n", "Rounds = -3\n", "Skip = true\n", "CrossCert = true\n", "SubscriberCRL = false\n", "flag = true\nnum = 99\ntext = \"top-level\"\n", "Rounds = 1\nSkip = true\nCrossCert = true\nSubscriberCRL = false\nnum = 5\n"}))
	}
	n := g.Range(1, 3)
	used := map[string]bool{}
	for i := 0; i < n; i++ {
		s := pick(g, neutralSectionNames)
		if used[s] {
			continue
		}
		used[s] = true
		fmt.Fprintf(&sb, "[%s]\nanything = %d\nflag = %v\n", s, g.Intn(50), g.Chance(0.5))
		// values of every TOML type: they are nobody's options and must stay inert
		for k := g.Intn(3); k > 0; k-- {
			sb.WriteString(pick(g, []string{
				"ratio = 0.75\n", "when = 2021-05-27T07:32:00Z\n", "day = 2021-05-27\n", "list = [1, 2, 3]\n", "mixed = [1, \"two\", 3.0]\n",
				"days = [2021-05-27, 2022-01-01]\n", "point = { x = 1, y = \"b\" }\n", "nested = [[1, 2], [\"a\"]]\n", "tables = [{ a = 1 }, { a = 2 }]\n",
				"text = \"\"\"\nmulti\nline\"\"\"\n", "a.b.c = true\n", "big = 9223372036854775807\n", "neg = -0.0\n",
			}))
		}
	}
	return sb.String()
}

// tomlOK reports whether go-toml (the loader the library mandates) accepts the text.
func tomlOK(text string) bool {
	_, err := toml.Load(text)
	return err == nil
}

// genCfg draws one configuration of the given class.
func genCfg(g *RNG, meta *MetaTable, class string) CfgSpec {
	confs := configurableNames(meta, false)
	switch class {
	case "empty":
		return CfgSpec{Class: "empty", Text: "", Via: "string"}
	case "neutral":
		return CfgSpec{Class: "neutral", Text: neutralText(g), Via: "string"}
	case "example":
		b, err := lint.GlobalRegistry().DefaultConfiguration()
		if err != nil {
			// reported by the C11 defaultcfg check; fall back to neutral here
			return CfgSpec{Class: "neutral", Text: "", Via: "string"}
		}
		return CfgSpec{Class: "example", Text: string(b), Via: "string"}
	case "option":
		n := g.Range(1, 3)
		var sb strings.Builder
		var targets []string
		for _, i := range g.subset(len(confs), n) {
			name := confs[i]
			// bias towards the real configurable lints
			if meta.ByName[name].Probe && g.Chance(0.5) {
				real := configurableNames(meta, true)
				name = pick(g, real)
			}
			dup := false
			for _, t := range targets {
				if t == name {
					dup = true
				}
			}
			if dup {
				continue
			}
			targets = append(targets, name)
			sb.WriteString(legalSection(g, name, configurableFields(name)))
		}
		if g.Chance(0.3) {
			sb.WriteString(neutralSectionOnce(g))
		}
		sort.Strings(targets)
		text := sb.String()
		if g.Chance(0.55) {
			// option-like keys at the top level belong to no lint
			text = pick(g, []string{"Rounds = 0\n", "Skip = true\nCrossCert = true\n", "SubscriberCRL = false\n", "flag = true\nnum = 99\ntext = \"top-level\"\n", "num = 41\n"}) + text
		}
		return CfgSpec{Class: "option", Text: text, Targets: targets, Via: "string"}
	case "illtyped", "odd":
		// one lint L whose section cannot be applied, possibly mixed with legal
		// sections for other lints
		var L string
		if g.Chance(0.6) {
			L = pick(g, configurableNames(meta, true))
		} else {
			L = pick(g, confs)
		}
		fields := configurableFields(L)
		var top, tables strings.Builder
		shape := ""
		must := true
		if class == "illtyped" {
			shape = pick(g, []string{"scalar_int", "scalar_string", "scalar_bool", "array", "array_of_tables", "wrong_field_type", "global_not_table"})
			if shape == "global_not_table" && !meta.ByName[L].Probe {
				shape = "scalar_int" // only the probes' option struct refers to a global section
			}
		} else {
			shape = pick(g, []string{"float_for_int", "huge_int", "unknown_key", "inline_table", "nested_table"})
			must = false
			if shape == "huge_int" && !meta.ByName[L].Probe {
				// a real lint's integer option is a round count: 2^63 rounds is a legal request that never ends
				shape = "unknown_key"
			}
		}
		switch shape {
		case "global_not_table":
			// the higher-scoped section the lint's options refer to is not a table (the lint's own section may be fine)
			fmt.Fprintf(&top, "%s = %s\n", probeGlobalSection, pick(g, []string{"7", "\"text\"", "true", "[1, 2]"}))
			if g.Chance(0.5) {
				tables.WriteString(legalSection(g, L, fields))
			}
		case "scalar_int":
			fmt.Fprintf(&top, "%s = %d\n", L, g.Intn(100))
		case "scalar_string":
			fmt.Fprintf(&top, "%s = %s\n", L, pick(g, []string{"\"not a table\"", "\"\"", "'literal'", "1.5", "1979-05-27T07:32:00Z", "-0", "0x10", "inf"}))
		case "scalar_bool":
			fmt.Fprintf(&top, "%s = true\n", L)
		case "array":
			// arrays of every element type, short, empty and nested
			fmt.Fprintf(&top, "%s = %s\n", L, pick(g, []string{"[1, 2, 3]", "[]", "[ ]", "[\"a\"]", "[\"a\", \"b\"]", "[1.5]", "[true, false]", "[[1, 2], [3]]", "[[]]", "[1979-05-27T07:32:00Z]"}))
		case "array_of_tables":
			f := "x = 1"
			if len(fields) > 0 {
				f = fields[0].Name + " = " + legalValue(g, fields[0])
			}
			fmt.Fprintf(&tables, "[[%s]]\n%s\n", L, f)
		case "wrong_field_type":
			if len(fields) == 0 {
				fmt.Fprintf(&top, "%s = 1\n", L)
				shape = "scalar_int"
			} else {
				f := pick(g, fields)
				fmt.Fprintf(&tables, "[%s]\n%s = %s\n", L, f.Name, wrongValue(g, f))
			}
		case "float_for_int":
			k := "x"
			for _, f := range fields {
				if f.Kind == "int" {
					k = f.Name
				}
			}
			fmt.Fprintf(&tables, "[%s]\n%s = 1.5\n", L, k)
		case "huge_int":
			k := "x"
			for _, f := range fields {
				if f.Kind == "int" {
					k = f.Name
				}
			}
			fmt.Fprintf(&tables, "[%s]\n%s = 9223372036854775807\n", L, k)
		case "unknown_key":
			fmt.Fprintf(&tables, "[%s]\nno_such_option = 1\n", L)
		case "inline_table":
			fmt.Fprintf(&top, "%s = { no_such_option = 1 }\n", L)
		case "nested_table":
			fmt.Fprintf(&tables, "[%s.inner]\nz = 1\n", L)
		}
		// legal sections for other lints
		var others strings.Builder
		targets := []string{L}
		if g.Chance(0.6) {
			for _, i := range g.subset(len(confs), g.Range(1, 2)) {
				if confs[i] == L {
					continue
				}
				targets = append(targets, confs[i])
				others.WriteString(legalSection(g, confs[i], configurableFields(confs[i])))
			}
		}
		sort.Strings(targets)
		text := top.String() + others.String() + tables.String()
		without := others.String()
		if g.Chance(0.5) { // put the offending table first instead of last
			text = top.String() + tables.String() + others.String()
		}
		return CfgSpec{Class: class, Text: text, Targets: targets, Ill: L, IllShape: shape, MustFatal: must, TextWithoutIll: without, Via: "string"}
	}
	panic("bad cfg class " + class)
}

func neutralSectionOnce(g *RNG) string {
	return fmt.Sprintf("[%s]\nanything = %d\n", pick(g, neutralSectionNames), g.Intn(9))
}

// ---------------------------------------------------------------- transports with faults

var errInjectedRead = errors.New("zsim: injected read error")

type faultReader struct {
	data   []byte
	f      ReaderFault
	pos    int
	ci     int
	fired  counters
	failed bool
}

func (r *faultReader) Read(p []byte) (int, error) {
	if len(p) == 0 {
		return 0, nil
	}
	limit := len(r.data)
	if r.f.EOFAfter >= 0 && r.f.EOFAfter < limit {
		limit = r.f.EOFAfter
	}
	errAt := -1
	if r.f.ErrAfter >= 0 {
		errAt = r.f.ErrAfter
		if errAt <= limit {
			limit = errAt
		} else {
			errAt = -1
		}
	}
	if r.failed {
		return 0, errInjectedRead
	}
	n := len(p)
	if len(r.f.Chunks) > 0 {
		c := r.f.Chunks[r.ci%len(r.f.Chunks)]
		r.ci++
		if c < n {
			n = c
		}
		if c == 1 {
			r.fired.inc("reader_1byte_chunk")
		}
	}
	if r.pos+n > limit {
		n = limit - r.pos
	}
	copy(p, r.data[r.pos:r.pos+n])
	r.pos += n
	if r.pos >= limit {
		if errAt >= 0 {
			r.failed = true
			r.fired.inc("reader_error_after_k")
			if r.f.ErrWithData && n > 0 {
				r.fired.inc("reader_error_with_data")
				return n, errInjectedRead
			}
			if n > 0 {
				return n, nil
			}
			return 0, errInjectedRead
		}
		if limit < len(r.data) {
			r.fired.inc("reader_torn_eof")
		}
		if r.f.EOFWithData && n > 0 {
			r.fired.inc("reader_eof_with_data")
			return n, io.EOF
		}
		if n > 0 {
			return n, nil
		}
		return 0, io.EOF
	}
	return n, nil
}

// deliveredBytes predicts what a transport with this fault plan delivers
// before a clean EOF, and whether it ends in a read error instead.
func deliveredBytes(text string, f *ReaderFault) (delivered string, readErr bool) {
	if f == nil {
		return text, false
	}
	limit := len(text)
	if f.EOFAfter >= 0 && f.EOFAfter < limit {
		limit = f.EOFAfter
	}
	if f.ErrAfter >= 0 && f.ErrAfter <= limit {
		return text[:f.ErrAfter], true
	}
	return text[:limit], false
}

func genReaderFault(g *RNG, n int) *ReaderFault {
	f := &ReaderFault{ErrAfter: -1, EOFAfter: -1}
	switch g.Intn(5) {
	case 0: // one shot
	case 1:
		f.Chunks = []int{1}
	case 2:
		f.Chunks = []int{g.Range(1, 7), g.Range(1, 64), g.Range(1, 512)}
	case 3:
		f.Chunks = []int{g.Range(2, 32)}
	case 4:
		f.Chunks = []int{4096}
	}
	switch g.Intn(6) {
	case 0, 1: // no fault beyond chunking
	case 2:
		f.EOFWithData = true
	case 3:
		if n > 0 {
			f.EOFAfter = g.Intn(n)
		}
		f.EOFWithData = g.Chance(0.3)
	case 4:
		f.ErrAfter = g.Intn(n + 1)
	case 5:
		f.ErrAfter = g.Intn(n + 1)
		f.ErrWithData = true
	}
	return f
}
