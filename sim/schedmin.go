package main

// Minimisation of SCHED plans and the crash handler that turns race-detector
// reports / runtime fatal errors of a worker into C10 violations.

import (
	"encoding/json"
	"regexp"
	"strings"
	"time"
)

func jsonUnmarshal(b []byte, v any) error { return json.Unmarshal(b, v) }

func minimiseSched(p *Plan, test func(*Plan) bool, deadline time.Time) *Plan {
	cur := p.clone()
	if !test(cur) {
		return nil
	}
	// (a) clients that are not needed lose their ops (indices stay stable)
	for c := range cur.Clients {
		if time.Now().After(deadline) || len(cur.Clients[c]) == 0 {
			continue
		}
		cand := cur.clone()
		cand.Clients[c] = []Op{}
		if test(cand) {
			cur = cand
		}
	}
	// (b) drop ops, one client at a time (halves, then singles)
	for c := range cur.Clients {
		n := len(cur.Clients[c])
		for chunk := (n + 1) / 2; chunk >= 1 && time.Now().Before(deadline); chunk /= 2 {
			for start := 0; start+chunk <= len(cur.Clients[c]); {
				cand := cur.clone()
				cand.Clients[c] = append(append([]Op{}, cur.Clients[c][:start]...), cur.Clients[c][start+chunk:]...)
				if len(cand.Clients[c]) < len(cur.Clients[c]) && test(cand) {
					cur = cand
				} else {
					start += chunk
				}
				if time.Now().After(deadline) {
					break
				}
			}
		}
	}
	// (c) ddmin over the explicit switches
	if cur.Schedule != nil && cur.Schedule.Strategy == "explicit" {
		n := 2
		for len(cur.Schedule.Explicit) >= 2 && time.Now().Before(deadline) {
			sw := cur.Schedule.Explicit
			size := len(sw)
			chunk := (size + n - 1) / n
			reduced := false
			for start := 1; start < size; start += chunk { // entry 0 names the first client
				end := start + chunk
				if end > size {
					end = size
				}
				cand := cur.clone()
				cand.Schedule.Explicit = append(append([]Switch{}, sw[:start]...), sw[end:]...)
				if test(cand) {
					cur = cand
					if n > 2 {
						n--
					}
					reduced = true
					break
				}
			}
			if !reduced {
				if chunk <= 1 {
					break
				}
				n *= 2
				if n > size {
					n = size
				}
			}
		}
	}
	if !test(cur) {
		return nil
	}
	return cur
}

var raceFrame = regexp.MustCompile(`(?m)^\s+(github\.com/zmap/zlint/v3[^\s(]*)\(`)

func crashHandlerFor(b batchSpec) crashHandler {
	if b.Engine != "sched" {
		return nil
	}
	return func(spec batchSpec, seed uint64, stderr string, err error) *foundViolation {
		mk := func(class, site, detail string) *foundViolation {
			plan := &Plan{Engine: spec.Engine, Prop: spec.Prop, Seed: seed, Tier: "quick",
				Knobs: map[string]any{"worker_mode": spec.Mode, "race_build": spec.Race, "gomaxprocs": spec.MaxProcs},
				Note:  "seed-only replay file: the workload is regenerated from the seed; the thread schedule of free-running mode is not controlled (DESIGN 4.1 RACE)"}
			return &foundViolation{V: Violation{Property: "C10", Class: class, Site: site, Detail: detail}, Plan: plan, Seed: seed, Spec: spec}
		}
		switch {
		case strings.Contains(stderr, "WARNING: DATA RACE"):
			var fr []string
			for _, m := range raceFrame.FindAllStringSubmatch(stderr, -1) {
				f := strings.TrimPrefix(m[1], "github.com/zmap/zlint/v3")
				dup := false
				for _, x := range fr {
					if x == f {
						dup = true
					}
				}
				if !dup {
					fr = append(fr, f)
				}
				if len(fr) == 2 {
					break
				}
			}
			i := strings.Index(stderr, "WARNING: DATA RACE")
			return mk("data_race", strings.Join(fr, " / "), "the race detector reports conflicting unsynchronised accesses while clients lint concurrently: "+clip(stderr[i:], 1800))
		case strings.Contains(stderr, "fatal error: concurrent map"):
			i := strings.Index(stderr, "fatal error:")
			return mk("runtime_fatal", "concurrent map access", clip(stderr[i:], 1200))
		case strings.Contains(stderr, "all goroutines are asleep"):
			return mk("deadlock", "", clip(stderr, 1200))
		case strings.Contains(stderr, "fatal error:"):
			i := strings.Index(stderr, "fatal error:")
			return mk("runtime_fatal", "", clip(stderr[i:], 1200))
		case strings.Contains(stderr, "\npanic: ") || strings.HasPrefix(stderr, "panic: "):
			// a panic that ended the worker: if it was raised inside zlint's own code (the first frame that is not the
			// runtime's), a registry read or a lint call panicked outside every recover - under this GOMAXPROCS, this workload
			if site := panicOrigin(stderr); strings.HasPrefix(site, "github.com/zmap/zlint/v3/") {
				i := strings.Index(stderr, "panic: ")
				return mk("panic", strings.TrimPrefix(site, "github.com/zmap/zlint/v3"), "a panic raised inside zlint ended the process: "+clip(stderr[i:], 1200))
			}
		}
		return nil
	}
}

// panicOrigin: the function of the first frame below the runtime's own in the trace of the panicking goroutine.
func panicOrigin(stderr string) string {
	i := strings.Index(stderr, "panic: ")
	if i < 0 {
		return ""
	}
	rest := stderr[i:]
	j := strings.Index(rest, "\ngoroutine ")
	if j < 0 {
		return ""
	}
	lines := strings.Split(rest[j+1:], "\n")
	for _, ln := range lines[1:] {
		if ln == "" {
			break
		}
		if strings.HasPrefix(ln, "\t") || strings.HasPrefix(ln, "panic(") || strings.HasPrefix(ln, "runtime.") || strings.HasPrefix(ln, "runtime/") {
			continue
		}
		if k := strings.LastIndex(ln, "("); k > 0 {
			ln = ln[:k]
		}
		return ln
	}
	return ""
}
