//go:build amd64

#include "textflag.h"

// func getg() uintptr: the address of the running goroutine's descriptor (its identity while it lives).
TEXT ·getg(SB),NOSPLIT,$0-8
	MOVQ (TLS), AX
	MOVQ AX, ret+0(FP)
	RET
