//go:build !finegrain

package main

const fineGrainBuild = false

func installFineGrain(s *sched) {}
func uninstallFineGrain()       {}

func setSimClock(t int64, onRead func(site string)) {}

func setStmtHook(f func(site string)) {}

func setSimTimers(on bool, early bool, onStart func(site string)) {}

type helperUse struct {
	File string `json:"file"`
	Lint string `json:"lint"`
}

func helperIndex() map[string][]helperUse { return nil }

func installJitter(seed uint64, perMille uint64) {}
func jitterStats() (uint64, uint64)           { return 0, 0 }
