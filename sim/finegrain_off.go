//go:build !finegrain

package main

const fineGrainBuild = false

func installFineGrain(s *sched) {}
func uninstallFineGrain()       {}
