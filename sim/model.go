package main

// Registry reference model (DESIGN §3.5-2). Written from the doc comments of
// FilterOptions / Filter and from the property text, not from Filter's body:
// a registry is a set of lint names plus a configuration id; Filter selects by
//   ExcludeSources > IncludeSources > NameFilter > ExcludeNames > IncludeNames,
// trims names, rejects unknown names and NameFilter together with name lists,
// leaves its source alone and hands the source's configuration to the child.

import (
	"fmt"
	"regexp"
	"sort"
	"strings"
	"time"

	"github.com/zmap/zlint/v3/lint"
)

type LintMeta struct {
	Name         string
	Kind         int
	Source       string
	Configurable bool
	Eff, Ineff   time.Time
	Meta         lint.LintMetadata
	Probe        bool
}

type MetaTable struct {
	ByName map[string]*LintMeta
	Names  []string // sorted
}

// readMetaTable reads which lints exist from the live global registry (the
// model is about operations on registries, not about the census of lints).
func readMetaTable() *MetaTable {
	t := &MetaTable{ByName: map[string]*LintMeta{}}
	g := lint.GlobalRegistry()
	for _, l := range g.CertificateLints().Lints() {
		_, c := l.Lint().(lint.Configurable)
		t.ByName[l.Name] = &LintMeta{Name: l.Name, Kind: KCert, Source: string(l.Source), Configurable: c, Eff: l.EffectiveDate, Ineff: l.IneffectiveDate, Meta: l.LintMetadata}
	}
	for _, l := range g.RevocationListLints().Lints() {
		_, c := l.Lint().(lint.Configurable)
		t.ByName[l.Name] = &LintMeta{Name: l.Name, Kind: KCRL, Source: string(l.Source), Configurable: c, Eff: l.EffectiveDate, Ineff: l.IneffectiveDate, Meta: l.LintMetadata}
	}
	for _, l := range g.OcspResponseLints().Lints() {
		_, c := l.Lint().(lint.Configurable)
		t.ByName[l.Name] = &LintMeta{Name: l.Name, Kind: KOCSP, Source: string(l.Source), Configurable: c, Eff: l.EffectiveDate, Ineff: l.IneffectiveDate, Meta: l.LintMetadata}
	}
	t.Names = sortedKeys(t.ByName)
	for _, n := range t.Names {
		t.ByName[n].Probe = isProbeName(n)
	}
	return t
}

func (t *MetaTable) sources() []string {
	set := map[string]bool{}
	for _, n := range t.Names {
		set[t.ByName[n].Source] = true
	}
	return sortedKeys(set)
}

func (t *MetaTable) namesOfKind(k int, real bool) []string {
	var out []string
	for _, n := range t.Names {
		m := t.ByName[n]
		if m.Kind == k && (!real || !m.Probe) {
			out = append(out, n)
		}
	}
	return out
}

// FilterOpts is the serialisable form of lint.FilterOptions. nil and empty
// lists survive a JSON round trip as such.
type FilterOpts struct {
	NameFilter     *string  `json:"name_filter,omitempty"`
	IncludeNames   []string `json:"include_names"`
	ExcludeNames   []string `json:"exclude_names"`
	IncludeSources []string `json:"include_sources"`
	ExcludeSources []string `json:"exclude_sources"`
	Profiles       []string `json:"profiles,omitempty"` // harness profiles added with FilterOptions.AddProfile, in order, after IncludeNames
}

// Harness profiles, registered through lint.RegisterProfile at start-up: the documented effect
// of AddProfile is to append the profile's lint names to IncludeNames. The lists get spare
// capacity on purpose (an implementation that appends *to the profile's slice* would show).
var harnessProfiles = map[string][]string{}

func registerHarnessProfiles() {
	g := lint.GlobalRegistry()
	certs := g.CertificateLints().Names()
	crls := g.RevocationListLints().Names()
	ocsps := g.OcspResponseLints().Names()
	var real []string
	for _, n := range certs {
		if !isProbeName(n) {
			real = append(real, n)
		}
	}
	pickEvery := func(xs []string, step, off int) []string {
		out := make([]string, 0, 64)
		for i := off; i < len(xs); i += step {
			out = append(out, xs[i])
		}
		return out
	}
	defs := map[string][]string{
		"zsim_profile_sparse": pickEvery(real, 41, 3),
		"zsim_profile_dense":  pickEvery(real, 7, 1),
		"zsim_profile_mixed":  append(append(pickEvery(real, 97, 5), firstN(crls, 2)...), firstN(ocsps, 1)...),
		"zsim_profile_dupes":  append(pickEvery(real, 120, 9), pickEvery(real, 120, 9)...),
	}
	for name, names := range defs {
		if len(names) == 0 {
			continue
		}
		own := make([]string, len(names), len(names)+32)
		copy(own, names)
		harnessProfiles[name] = append([]string(nil), names...)
		lint.RegisterProfile(lint.Profile{Name: name, Description: "zsim harness profile", Citation: "zsim", Source: lint.Community, LintNames: own})
	}
}

func firstN(xs []string, n int) []string {
	if len(xs) < n {
		n = len(xs)
	}
	return append([]string(nil), xs[:n]...)
}

// includeNamesEff is IncludeNames as Filter sees it: the list given plus the names of the added profiles.
func (o *FilterOpts) includeNamesEff() []string {
	if len(o.Profiles) == 0 {
		return o.IncludeNames
	}
	out := append([]string(nil), o.IncludeNames...)
	for _, p := range o.Profiles {
		out = append(out, harnessProfiles[p]...)
	}
	return out
}

// profilesIntact reports the first registered harness profile whose name list is no longer what was registered.
func profilesIntact() (string, bool) {
	for _, name := range sortedKeys(harnessProfiles) {
		p, ok := lint.GetProfile(name)
		if !ok || !sameStrings(p.LintNames, harnessProfiles[name]) {
			return name, false
		}
	}
	return "", true
}

func (o *FilterOpts) real() (lint.FilterOptions, error) {
	var f lint.FilterOptions
	if o.NameFilter != nil {
		re, err := regexp.Compile(*o.NameFilter)
		if err != nil {
			return f, err
		}
		f.NameFilter = re
	}
	cp := func(l []string) []string { // the caller's own list (nil stays nil, empty stays empty)
		if l == nil {
			return nil
		}
		return append(make([]string, 0, len(l)), l...)
	}
	f.IncludeNames = cp(o.IncludeNames)
	if len(o.IncludeNames) > 0 && len(o.Profiles) > 0 {
		// the caller's own list, with room to grow: AddProfile appends to it
		f.IncludeNames = append(make([]string, 0, len(o.IncludeNames)+4), o.IncludeNames...)
	}
	f.ExcludeNames = cp(o.ExcludeNames)
	if o.IncludeSources != nil {
		f.IncludeSources = lint.SourceList{}
		for _, s := range o.IncludeSources {
			f.IncludeSources = append(f.IncludeSources, lint.LintSource(s))
		}
	}
	if o.ExcludeSources != nil {
		f.ExcludeSources = lint.SourceList{}
		for _, s := range o.ExcludeSources {
			f.ExcludeSources = append(f.ExcludeSources, lint.LintSource(s))
		}
	}
	for _, name := range o.Profiles {
		p, ok := lint.GetProfile(name)
		if !ok {
			return f, fmt.Errorf("harness profile %q is not registered", name)
		}
		f.AddProfile(p)
	}
	return f, nil
}

func (o *FilterOpts) empty() bool {
	return o.NameFilter == nil && len(o.includeNamesEff()) == 0 && len(o.ExcludeNames) == 0 &&
		len(o.IncludeSources) == 0 && len(o.ExcludeSources) == 0
}

// ModelReg is the reference state of one registry object. Aliases (Filter with
// empty options may return the receiver itself) share one *ModelReg.
type ModelReg struct {
	Sel map[string]bool
	Cfg int // index into the run's configuration pool; -1 = the empty configuration
}

func (m *ModelReg) names() []string { return sortedKeys(m.Sel) }

func (m *ModelReg) namesOfKind(t *MetaTable, k int) []string {
	var out []string
	for _, n := range m.names() {
		if t.ByName[n].Kind == k {
			out = append(out, n)
		}
	}
	return out
}

func (m *ModelReg) sourceSet(t *MetaTable) []string {
	set := map[string]bool{}
	for n := range m.Sel {
		set[t.ByName[n].Source] = true
	}
	return sortedKeys(set)
}

type filterVerdict struct {
	Err   bool
	Why   string
	Alias bool // options were empty: returning the receiver or an equal copy are both fine
	Sel   map[string]bool
}

// modelFilter predicts Filter(parent, opts).
func modelFilter(t *MetaTable, parent *ModelReg, o *FilterOpts) filterVerdict {
	if o.empty() {
		return filterVerdict{Alias: true, Sel: parent.Sel}
	}
	trimAll := func(xs []string) (map[string]bool, string) {
		if len(xs) == 0 {
			return nil, ""
		}
		m := map[string]bool{}
		for _, x := range xs {
			x = strings.TrimSpace(x)
			if !parent.Sel[x] {
				return nil, x
			}
			m[x] = true
		}
		return m, ""
	}
	exN, bad := trimAll(o.ExcludeNames)
	if exN == nil && len(o.ExcludeNames) > 0 {
		return filterVerdict{Err: true, Why: fmt.Sprintf("unknown excluded name %q", bad)}
	}
	incl := o.includeNamesEff()
	inN, bad := trimAll(incl)
	if inN == nil && len(incl) > 0 {
		return filterVerdict{Err: true, Why: fmt.Sprintf("unknown included name %q", bad)}
	}
	if o.NameFilter != nil && (len(o.ExcludeNames) > 0 || len(incl) > 0) {
		return filterVerdict{Err: true, Why: "name pattern combined with name lists"}
	}
	var re *regexp.Regexp
	if o.NameFilter != nil {
		re = regexp.MustCompile(*o.NameFilter)
	}
	has := func(xs []string, s string) bool {
		for _, x := range xs {
			if x == s {
				return true
			}
		}
		return false
	}
	sel := map[string]bool{}
	for n := range parent.Sel {
		src := t.ByName[n].Source
		if has(o.ExcludeSources, src) {
			continue
		}
		if len(o.IncludeSources) > 0 && !has(o.IncludeSources, src) {
			continue
		}
		if re != nil && !re.MatchString(n) {
			continue
		}
		if exN[n] {
			continue
		}
		if len(incl) > 0 && !inN[n] {
			continue
		}
		sel[n] = true
	}
	return filterVerdict{Sel: sel}
}

// ---------------------------------------------------------------- observing a real registry

// regObs is what can be observed of a registry through its public interface.
type regObs struct {
	Names      []string
	KindNames  [3][]string
	KindLints  [3][]string // names in Lints() order
	Sources    []string    // as a sorted set
	KindSrc    [3][]string
	JSONLines  []string // WriteJSON output, line by line (in order)
	CfgPresent bool
}

func observe(r lint.Registry) *regObs {
	o := &regObs{}
	o.Names = append([]string(nil), r.Names()...)
	o.KindNames[KCert] = append([]string(nil), r.CertificateLints().Names()...)
	o.KindNames[KCRL] = append([]string(nil), r.RevocationListLints().Names()...)
	o.KindNames[KOCSP] = append([]string(nil), r.OcspResponseLints().Names()...)
	for _, l := range r.CertificateLints().Lints() {
		o.KindLints[KCert] = append(o.KindLints[KCert], l.Name)
	}
	for _, l := range r.RevocationListLints().Lints() {
		o.KindLints[KCRL] = append(o.KindLints[KCRL], l.Name)
	}
	for _, l := range r.OcspResponseLints().Lints() {
		o.KindLints[KOCSP] = append(o.KindLints[KOCSP], l.Name)
	}
	set := func(sl lint.SourceList) []string {
		var out []string
		for _, s := range sl {
			out = append(out, string(s))
		}
		sort.Strings(out)
		return out
	}
	o.Sources = set(r.Sources())
	o.KindSrc[KCert] = set(r.CertificateLints().Sources())
	o.KindSrc[KCRL] = set(r.RevocationListLints().Sources())
	o.KindSrc[KOCSP] = set(r.OcspResponseLints().Sources())
	var sb strings.Builder
	r.WriteJSON(&sb)
	s := strings.TrimSuffix(sb.String(), "\n")
	if s != "" {
		o.JSONLines = strings.Split(s, "\n")
	}
	return o
}

func (o *regObs) hash() string { return shortHash(mustJSON(o)) }

func sameStrings(a, b []string) bool {
	if len(a) != len(b) {
		return false
	}
	for i := range a {
		if a[i] != b[i] {
			return false
		}
	}
	return true
}

func sortedCopy(a []string) []string {
	b := append([]string(nil), a...)
	sort.Strings(b)
	return b
}

func diffSets(want, got []string) string {
	w, g := map[string]bool{}, map[string]bool{}
	for _, x := range want {
		w[x] = true
	}
	for _, x := range got {
		g[x] = true
	}
	var miss, extra []string
	for _, x := range sortedKeys(w) {
		if !g[x] {
			miss = append(miss, x)
		}
	}
	for _, x := range sortedKeys(g) {
		if !w[x] {
			extra = append(extra, x)
		}
	}
	if len(want) != len(got) && len(miss) == 0 && len(extra) == 0 {
		return fmt.Sprintf("same set, different multiplicity/length (want %d got %d)", len(want), len(got))
	}
	return fmt.Sprintf("missing=%v extra=%v", clipList(miss, 6), clipList(extra, 6))
}

func clipList(xs []string, n int) []string {
	if len(xs) <= n {
		return xs
	}
	return append(append([]string(nil), xs[:n]...), fmt.Sprintf("…+%d", len(xs)-n))
}
