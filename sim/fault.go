package main

// FAULT engine (DESIGN §4.2, §4.8): component outcomes are injected into probe
// lints (scripted applicability, status, details, panics, configuration
// faults) and the framework's behaviour is judged against a lifecycle model
// written from the property text, plus a call-log ordering check. The engine
// reuses the HIST executor: a FAULT plan is a history with two more op kinds,
//   probe   set a script, lint, judge every selected probe and the call log
//   direct  differential for real lints: framework result vs. the lint's own
//           CheckApplies/Execute on a fresh, freshly configured instance

import (
	"bytes"

	"encoding/json"
	"fmt"
	"os"
	"path/filepath"
	"sort"
	"strings"
	"time"

	toml "github.com/pelletier/go-toml"
	"github.com/zmap/zcrypto/x509"
	zlint "github.com/zmap/zlint/v3"
	"github.com/zmap/zlint/v3/lint"
)

// ---------------------------------------------------------------- scope classes (harness-own, conservative)

func oidHasPrefix(o []int, pre ...int) bool {
	if len(o) < len(pre) {
		return false
	}
	for i := range pre {
		if o[i] != pre[i] {
			return false
		}
	}
	return true
}

// scopeClasses says, for the three gated documents, whether a certificate is
// clearly in scope, clearly out of scope, or in between (not judged). Written
// from the property text: "no server-auth, email-protection or code-signing
// indication respectively".
func scopeClasses(c *x509.Certificate) map[string]string {
	hasEKU := len(c.ExtKeyUsage)+len(c.UnknownExtKeyUsage) > 0
	has := func(u x509.ExtKeyUsage) bool {
		for _, e := range c.ExtKeyUsage {
			if e == u {
				return true
			}
		}
		return false
	}
	anyEKU := has(x509.ExtKeyUsageAny)
	cabf, csPol, csExact, smimePol := false, false, false, false
	for _, p := range c.PolicyIdentifiers {
		// the twelve policy identifiers the S/MIME Baseline Requirements reserve (2.23.140.1.5.<type>.<generation>):
		// a certificate asserting one claims to be issued under that document
		if len(p) == 7 && oidHasPrefix(p, 2, 23, 140, 1, 5) && p[5] >= 1 && p[5] <= 4 && p[6] >= 1 && p[6] <= 3 {
			smimePol = true
		}
		if oidHasPrefix(p, 2, 23, 140, 1) {
			cabf = true
		}
		if oidHasPrefix(p, 2, 23, 140, 1, 3) || oidHasPrefix(p, 2, 23, 140, 1, 4) {
			csPol = true
		}
		if p.String() == "2.23.140.1.3" || p.String() == "2.23.140.1.4.1" {
			csExact = true
		}
	}
	email := false
	for _, e := range c.EmailAddresses {
		if e != "" {
			email = true
		}
	}
	// "... the inclusion of a rfc822Name SAN or an otherName of type id-on-SmtpUTF8Mailbox": a name entry of
	// that type (with a value) is a mailbox indication whatever its value decodes to
	for _, on := range c.OtherNames {
		if on.TypeID.String() == "1.3.6.1.5.5.7.8.9" && len(on.Value.Bytes) > 0 {
			email = true
		}
	}
	out := map[string]string{"CABF_BR": "unclear", "CABF_SMIME_BR": "unclear", "CABF_CS_BR": "unclear"}
	switch {
	case has(x509.ExtKeyUsageServerAuth):
		out["CABF_BR"] = "in"
	case hasEKU && !anyEKU && !cabf:
		out["CABF_BR"] = "out"
	}
	switch {
	case has(x509.ExtKeyUsageEmailProtection) && email, smimePol:
		out["CABF_SMIME_BR"] = "in"
	case hasEKU && !has(x509.ExtKeyUsageEmailProtection) && !anyEKU && !cabf:
		out["CABF_SMIME_BR"] = "out"
	}
	switch {
	case csExact:
		out["CABF_CS_BR"] = "in"
	case hasEKU && !has(x509.ExtKeyUsageCodeSigning) && !anyEKU && !csPol:
		out["CABF_CS_BR"] = "out"
	}
	return out
}

func scopeOf(p *Parsed, source string) string {
	if p.Kind != KCert {
		return "none"
	}
	switch source {
	case "CABF_BR", "CABF_SMIME_BR", "CABF_CS_BR":
		return scopeClasses(p.Cert)[source]
	}
	return "none"
}

// ---------------------------------------------------------------- corpus class index (cached)

type corpusClassEntry struct {
	File  string            `json:"file"`
	Kind  int               `json:"kind"`
	Scope map[string]string `json:"scope,omitempty"`
	Date  int64             `json:"date"`
	Conf  []string          `json:"conf,omitempty"` // real configurable lints with a verdict (not NA/NE) on this object
	Find  []string          `json:"find,omitempty"` // real lints with a finding (info or worse) on this object
	Clk   []string          `json:"clk,omitempty"`  // the two clock-reading lints, where they give a verdict (pass or worse) on this object
}

// clockExempt: the two lints C05 exempts ("compare host names with today's TLD table").
var clockExempt = map[string]bool{"w_sub_cert_aia_contains_internal_names": true, "w_smime_aia_contains_internal_names": true}

// indexHash keys cached indexes: workers of the fine-grain build share the plain harness's
// (the plan generator must draw from the same index in both).
func indexHash() string {
	if h := os.Getenv("ZSIM_REF_BINHASH"); h != "" {
		return h
	}
	return binHash()
}

var corpusClassMemo []corpusClassEntry

func corpusClassIndex() []corpusClassEntry {
	if corpusClassMemo != nil {
		return corpusClassMemo
	}
	idx := corpusIndex()
	var sb strings.Builder
	for _, n := range idx {
		st, err := os.Stat(filepath.Join(testdataDir(), n))
		if err == nil {
			fmt.Fprintf(&sb, "%s:%d:%d;", n, st.Size(), st.ModTime().UnixNano())
		}
	}
	path := filepath.Join(verifRoot(), "work", "corpus-index5-"+shortHash(sb.String()+indexHash())+".json")
	if b, err := os.ReadFile(path); err == nil {
		var out []corpusClassEntry
		if json.Unmarshal(b, &out) == nil && len(out) > 0 {
			corpusClassMemo = out
			return out
		}
	}
	var out []corpusClassEntry
	for _, n := range idx {
		o := loadCorpusFile(n)
		if o == nil {
			continue
		}
		p, err := parseObj(o.Kind, o.DER)
		if err != nil {
			continue
		}
		e := corpusClassEntry{File: n, Kind: o.Kind, Date: objectDate(p).Unix()}
		if o.Kind == KCert {
			e.Scope = scopeClasses(p.Cert)
		}
		e.Conf = verdictConfigurables(p)
		e.Find = findingLints(p)
		e.Clk = verdictOf(p, clockExempt)
		out = append(out, e)
	}
	b, _ := json.Marshal(out)
	os.MkdirAll(filepath.Dir(path), 0o755)
	tmp := fmt.Sprintf("%s.%d.tmp", path, os.Getpid())
	if os.WriteFile(tmp, b, 0o644) == nil {
		os.Rename(tmp, path)
		if old, _ := filepath.Glob(filepath.Join(filepath.Dir(path), "corpus-index*.json")); len(old) > 0 {
			for _, f := range old {
				if f != path {
					os.Remove(f) // index of an earlier binary
				}
			}
		}
	}
	corpusClassMemo = out
	return out
}

// verdictConfigurables lists the real configurable lints that give a verdict
// (pass or worse) on the object under the empty configuration.
func verdictConfigurables(p *Parsed) (out []string) {
	defer func() { recover() }()
	cfg := lint.NewEmptyConfig()
	g := lint.GlobalRegistry()
	switch p.Kind {
	case KCert:
		for _, l := range g.CertificateLints().Lints() {
			if _, ok := l.Lint().(lint.Configurable); ok && !isProbeName(l.Name) {
				if r := l.Execute(p.Cert, cfg); r != nil && r.Status >= lint.Pass {
					out = append(out, l.Name)
				}
			}
		}
	case KCRL:
		for _, l := range g.RevocationListLints().Lints() {
			if _, ok := l.Lint().(lint.Configurable); ok && !isProbeName(l.Name) {
				if r := l.Execute(p.CRL, cfg); r != nil && r.Status >= lint.Pass {
					out = append(out, l.Name)
				}
			}
		}
	case KOCSP:
		for _, l := range g.OcspResponseLints().Lints() {
			if _, ok := l.Lint().(lint.Configurable); ok && !isProbeName(l.Name) {
				if r := l.Execute(p.OCSP, cfg); r != nil && r.Status >= lint.Pass {
					out = append(out, l.Name)
				}
			}
		}
	}
	return out
}

// verdictOf lists those of the named certificate lints that give a verdict (pass or worse) on the object.
func verdictOf(p *Parsed, names map[string]bool) (out []string) {
	defer func() { recover() }()
	if p.Kind != KCert {
		return nil
	}
	cfg := lint.NewEmptyConfig()
	for _, l := range lint.GlobalRegistry().CertificateLints().Lints() {
		if names[l.Name] {
			if r := l.Execute(p.Cert, cfg); r != nil && r.Status >= lint.Pass {
				out = append(out, l.Name)
			}
		}
	}
	return out
}

// findingLints lists the real lints that report info or worse on the object
// (empty configuration, full registry): which rarely taken paths an object reaches.
func findingLints(p *Parsed) (out []string) {
	defer func() { recover() }()
	var rs *zlint.ResultSet
	switch p.Kind {
	case KCert:
		rs = zlint.LintCertificate(p.Cert)
	case KCRL:
		rs = zlint.LintRevocationList(p.CRL)
	case KOCSP:
		rs = zlint.LintOcspResponse(p.OCSP)
	}
	if rs == nil {
		return nil
	}
	for n, r := range rs.Results {
		if r != nil && r.Status >= lint.Notice && !isProbeName(n) {
			out = append(out, n)
		}
	}
	sort.Strings(out)
	return out
}

func pickClass(g *RNG, want func(e *corpusClassEntry) bool) *ObjSpec {
	idx := corpusClassIndex()
	var cand []int
	for i := range idx {
		if want(&idx[i]) {
			cand = append(cand, i)
		}
	}
	for tries := 0; tries < 20 && len(cand) > 0; tries++ {
		if o := loadCorpusFile(idx[pick(g, cand)].File); o != nil {
			return o
		}
	}
	return nil
}

// redateOCSP moves thisUpdate, producedAt and nextUpdate of an OCSP response to
// the same side of any window (same-length patch of the GeneralizedTime strings).
func redateOCSP(o *ObjSpec, to time.Time) *ObjSpec {
	p, err := parseObj(o.Kind, o.DER)
	if err != nil || o.Kind != KOCSP {
		return nil
	}
	d := append([]byte(nil), o.DER...)
	const layout = "20060102150405Z"
	rep := func(old, new time.Time) {
		pat := append([]byte{0x18, 15}, old.UTC().Format(layout)...)
		for {
			i := bytes.Index(d, pat)
			if i < 0 {
				return
			}
			copy(d[i+2:], new.UTC().Format(layout))
			if old.Equal(new) {
				return
			}
		}
	}
	rep(p.OCSP.ThisUpdate, to)
	rep(p.OCSP.ProducedAt, to)
	rep(p.OCSP.NextUpdate, to.Add(24*time.Hour))
	q, err := parseObj(KOCSP, d)
	if err != nil || !q.OCSP.ThisUpdate.Equal(to) || !q.OCSP.ProducedAt.Equal(to) || !q.OCSP.NextUpdate.Equal(to.Add(24*time.Hour)) {
		return nil
	}
	return &ObjSpec{ID: o.ID + "#date(" + to.Format("2006-01-02") + ")", Kind: KOCSP, DER: d}
}

// ---------------------------------------------------------------- window position (1 day margin)

const dayMargin = 24 * time.Hour

// objectInstants are the instants of the object a window could be compared
// with; the position is judged only when all of them fall on the same side.
func objectInstants(p *Parsed) []time.Time {
	switch p.Kind {
	case KCert:
		return []time.Time{p.Cert.NotBefore}
	case KCRL:
		return []time.Time{p.CRL.ThisUpdate}
	}
	return []time.Time{p.OCSP.ThisUpdate, p.OCSP.NextUpdate, p.OCSP.ProducedAt}
}

// windowPos returns inside | outside | unjudged for a window [eff, ineff); zero bounds are open.
func windowPos(p *Parsed, eff, ineff time.Time) string {
	res := ""
	for _, t := range objectInstants(p) {
		pos := "inside"
		if !eff.IsZero() {
			switch {
			case !t.Before(eff.Add(dayMargin)):
			case !t.After(eff.Add(-dayMargin)):
				pos = "outside"
			default:
				return "unjudged"
			}
		}
		if pos == "inside" && !ineff.IsZero() {
			switch {
			case !t.After(ineff.Add(-dayMargin)):
			case !t.Before(ineff.Add(dayMargin)):
				pos = "outside"
			default:
				return "unjudged"
			}
		}
		if res != "" && res != pos {
			return "unjudged"
		}
		res = pos
	}
	return res
}

// ---------------------------------------------------------------- configuration as the probe should see it

const probeGlobalSection = "CABFBaselineRequirementsConfig"

// probeCfgState: absent | legal | inapplicable | odd, and the option values a
// probe must receive (harness reads the TOML itself, not through the library's deserialiser).
func probeCfgState(spec *CfgSpec, text string, name string) (string, ProbeCfg) {
	def := ProbeCfg{Num: 7, Text: "default", BR: &lint.CABFBaselineRequirementsConfig{}}
	if spec == nil {
		return "absent", def
	}
	if spec.Ill == name {
		if spec.MustFatal {
			return "inapplicable", def
		}
		return "odd", def
	}
	tree, err := toml.Load(text)
	if err != nil {
		return "odd", def
	}
	// the global section the probes' option struct refers to: where it is not a table it cannot be
	// applied to any lint that refers to it
	if gsec := tree.Get(probeGlobalSection); gsec != nil {
		if _, isTable := gsec.(*toml.Tree); !isTable {
			if spec.MustFatal {
				return "inapplicable", def
			}
			return "odd", def
		}
	}
	sec, ok := tree.Get(name).(*toml.Tree)
	if !ok {
		if tree.Get(name) != nil {
			return "odd", def
		}
		return "absent", def
	}
	v := def
	for _, k := range sec.Keys() {
		switch k {
		case "flag":
			b, ok := sec.Get(k).(bool)
			if !ok {
				return "odd", def
			}
			v.Flag = b
		case "num":
			n, ok := sec.Get(k).(int64)
			if !ok {
				return "odd", def
			}
			v.Num = int(n)
		case "text":
			s, ok := sec.Get(k).(string)
			if !ok {
				return "odd", def
			}
			v.Text = s
		default:
			return "odd", def
		}
	}
	return "legal", v
}

// ---------------------------------------------------------------- lifecycle model

type lcExpect struct {
	Judged       bool
	Statuses     []int
	Details      *string
	NonEmptyD    bool
	NoMarker     bool
	NoExecute    bool
	MustExecute  bool
	PanicCase    bool
	Why          string
	CheckOptVals bool
	Opts         ProbeCfg
}

func lifecycleModel(def *probeDef, act Action, scope, cfgState string, vals ProbeCfg, win string) lcExpect {
	str := func(s string) *string { return &s }
	isCert := def.Kind == KCert
	if isCert && scope == "out" {
		return lcExpect{Judged: true, Statuses: []int{1}, Details: str(""), NoExecute: true, Why: "certificate clearly outside the scope of " + string(def.Source)}
	}
	if isCert && scope == "unclear" {
		return lcExpect{Why: "scope not clear-cut"}
	}
	if act.Panic != "" && !isCert {
		// no containment is promised on the CRL / OCSP paths: what a panicking probe of those kinds gets is not
		// judged - what the *other* lints of a call that nevertheless returns get is (they are judged as usual)
		return lcExpect{Why: "panicking CRL / OCSP probe: not judged"}
	}
	panics := act.Panic != "" && isCert
	at := act.PanicAt
	if at == "" {
		at = "execute"
	}
	if def.Configurable {
		if panics && at == "configure" {
			return lcExpect{Judged: true, Statuses: []int{7}, NoExecute: true, PanicCase: true, Why: "panic while handing out the option struct"}
		}
		switch cfgState {
		case "inapplicable":
			if !act.Applies {
				return lcExpect{Judged: true, Statuses: []int{1, 7}, NoExecute: true, Why: "inapplicable configuration and not applicable"}
			}
			return lcExpect{Judged: true, Statuses: []int{7}, NonEmptyD: true, NoMarker: true, NoExecute: true, Why: "configuration cannot be applied"}
		case "odd":
			return lcExpect{Why: "configuration shape whose applicability the property leaves open"}
		}
	}
	if panics && at == "applies" {
		return lcExpect{Judged: true, Statuses: []int{7}, NoExecute: true, PanicCase: true, Why: "applicability test panics"}
	}
	if !act.Applies {
		return lcExpect{Judged: true, Statuses: []int{1}, Details: str(""), NoExecute: true, Why: "applicability test rejects the object"}
	}
	switch win {
	case "outside":
		return lcExpect{Judged: true, Statuses: []int{2}, Details: str(""), NoExecute: true, Why: "applicable but outside the window"}
	case "unjudged":
		return lcExpect{Why: "object too close to a window bound"}
	}
	if panics && at == "execute" {
		return lcExpect{Judged: true, Statuses: []int{7}, MustExecute: true, PanicCase: true, Why: "rule body panics", CheckOptVals: def.Configurable, Opts: vals}
	}
	d := act.Details
	if act.Echo {
		d = "opts: " + vals.String()
	}
	return lcExpect{Judged: true, Statuses: []int{act.Status}, Details: &d, MustExecute: true, Why: "in scope, applicable, inside the window: the body's verdict stands", CheckOptVals: def.Configurable, Opts: vals}
}

// ---------------------------------------------------------------- execution of probe / direct ops

func (h *histState) doProbe(i int, op *Op) {
	o, p := h.objectFor(op)
	m := h.mregs[op.Reg]
	var spec *CfgSpec
	if m.Cfg >= 0 {
		spec = h.cfgs[m.Cfg].spec
	}
	curScript = op.Script
	h.curScriptBad = map[string]bool{}
	for _, n := range sortedKeys(op.Script) {
		a := op.Script[n]
		if a.Status < 1 || a.Status > 7 {
			h.curScriptBad[n] = true
		}
	}
	probeLogging = true
	callLog = nil
	path := op.Path
	if path == "" || ((path == "deprecated" || path == "depsource") && o.spec.Kind != KCert) {
		path = "ex"
	}
	cs, partial := h.lintCall(i, p, h.regs[op.Reg], path, op.Perm, m.Sel)
	probeLogging = false
	if cs.Hung {
		return
	}
	clog := callLog
	callLog = nil
	foreignPanic := cs.Panic != "" && o.spec.Kind != KCert && scriptedPanicOfKind(o.spec.Kind, m.Sel)
	curScript = nil
	h.curScriptBad = nil
	o.linted = true
	if foreignPanic {
		// a CRL / OCSP probe scripted to panic took the call with it: nothing of this call is judged
		h.log.Add("op %d probe obj=%d reg=%d: a scripted %s probe panic left the call (not judged)", i, op.Obj, op.Reg, kindNames[o.spec.Kind])
		return
	}
	h.ctr.inc("probe_ops")
	h.ctr.inc("probe_path_" + path)
	rec := &lintRecord{op: i, obj: op.Obj, reg: op.Reg, cfg: m.Cfg, path: path, fresh: op.Fresh, canon: cs, partial: partial, sel: m.Sel, script: op.Script}
	h.recs = append(h.recs, rec)
	h.log.Add("op %d probe obj=%d reg=%d cfg=%d path=%s script=%s -> %s calls=%d", i, op.Obj, op.Reg, m.Cfg, path, shortHash(mustJSON(op.Script)), cs.hash(), len(clog))
	h.checkReadOnly(i, o)
	if cs.Panic != "" {
		for _, n := range sortedKeys(op.Script) {
			if a := op.Script[n]; a.Panic != "" && probeByName[n] != nil && probeByName[n].Kind == KCert && o.spec.Kind == KCert && m.Sel[n] {
				h.violate(Violation{Property: "C04", Class: "panic_not_contained", Op: i, Site: a.Panic + "@" + a.PanicAt,
					Detail: "a panicking rule body (or applicability test / option hand-out) of a certificate lint was not turned into that lint's fatal result; the panic left the lint call: " + clip(cs.Panic, 200)})
				break
			}
		}
		return
	}
	// group the call log by probe
	byProbe := map[string][]CallEvent{}
	for _, e := range clog {
		byProbe[e.Probe] = append(byProbe[e.Probe], e)
	}
	for _, n := range m.namesOfKind(h.meta, o.spec.Kind) {
		def := probeByName[n]
		if def == nil {
			continue
		}
		prev := curScript
		curScript = op.Script
		act := actionFor(def)
		curScript = prev
		scope := scopeOf(p, string(def.Source))
		cst, vals := probeCfgState(spec, h.cfgText(m.Cfg), n)
		win := windowPos(p, h.meta.ByName[n].Eff, h.meta.ByName[n].Ineff)
		exp := lifecycleModel(def, act, scope, cst, vals, win)
		got, ok := cs.Results[n]
		ev := byProbe[n]
		h.checks++
		h.mark("lifecycle_cells", fmt.Sprintf("%s|%s|conf=%v|%s|applies=%v|%s|%s|st=%d|panic=%s@%s", kindNames[def.Kind], scope, def.Configurable, cst, act.Applies, def.Window, win, act.Status, act.Panic, act.PanicAt))
		if !ok {
			continue // reported by the C01 shape monitor
		}
		// every method call must be on an instance constructed during this execution
		news := map[int64]bool{}
		for _, e := range ev {
			if e.Method == "New" {
				news[e.Inst] = true
			} else if !news[e.Inst] {
				h.violate(Violation{Property: "C04", Class: "stale_instance", Lint: n, Op: i,
					Detail: fmt.Sprintf("%s was called on instance %d, which was not constructed for this execution (call log %s)", e.Method, e.Inst, fmtLog(ev))})
				break
			}
		}
		nExec := 0
		for k, e := range ev {
			if e.Method == "CheckApplies" && def.Configurable && (cst == "absent" || cst == "legal") && e.Opts != vals.String() && scope != "out" {
				h.violate(Violation{Property: "C11", Class: "option_values", Lint: n, Op: i, Site: cst,
					Detail:   "a configurable lint's applicability test ran on an instance holding option values other than those of its section in the registry's configuration (defaults where the section is absent)",
					Expected: vals.String(), Got: e.Opts})
				h.violate(Violation{Property: "C04", Class: "not_freshly_configured", Lint: n, Op: i,
					Detail: "the applicability test ran on an instance that did not hold exactly the registry's current option values", Expected: vals.String(), Got: e.Opts})
			}
			if e.Method != "Execute" {
				continue
			}
			nExec++
			okApplies, okConf := false, !def.Configurable
			confBeforeApplies := !def.Configurable
			for _, b := range ev[:k] {
				if b.Inst != e.Inst {
					continue
				}
				if b.Method == "Configure" && !okApplies {
					confBeforeApplies = true
					okConf = true
				}
				if b.Method == "CheckApplies" && b.Ret == "true" {
					okApplies = true
				}
			}
			if !okApplies {
				h.violate(Violation{Property: "C04", Class: "execute_without_applies", Lint: n, Op: i,
					Detail: "the rule body ran on an instance whose applicability test had not returned true before: " + fmtLog(ev)})
			}
			if !okConf || !confBeforeApplies {
				h.violate(Violation{Property: "C04", Class: "configure_order", Lint: n, Op: i,
					Detail: "the rule body ran on an instance that was not configured before its applicability test: " + fmtLog(ev)})
			}
			if exp.Judged && exp.CheckOptVals && e.Opts != exp.Opts.String() {
				h.violate(Violation{Property: "C04", Class: "not_freshly_configured", Lint: n, Op: i,
					Detail:   "the instance the rule body ran on did not hold exactly the registry's current option values (constructor defaults where the section is absent)",
					Expected: exp.Opts.String(), Got: e.Opts})
				h.violate(Violation{Property: "C11", Class: "option_values", Lint: n, Op: i, Site: cst,
					Detail:   "a configurable lint received option values other than those of its section in the registry's configuration",
					Expected: exp.Opts.String(), Got: e.Opts})
			}
		}
		if nExec > 1 {
			h.violate(Violation{Property: "C04", Class: "execute_twice", Lint: n, Op: i, Detail: "the rule body ran more than once in one execution: " + fmtLog(ev)})
		}
		if !exp.Judged {
			h.ctr.inc("lifecycle_unjudged")
			continue
		}
		h.ctr.inc("lifecycle_judged")
		if act.Panic != "" && def.Kind == KCert {
			h.ctr.inc("probe_panic_" + act.Panic)
		}
		if exp.NoExecute && nExec > 0 {
			h.violate(Violation{Property: "C04", Class: "body_ran", Lint: n, Op: i, Site: exp.Why,
				Detail: fmt.Sprintf("the rule body was run although %s (scope=%s cfg=%s applies=%v window=%s): %s", exp.Why, scope, cst, act.Applies, win, fmtLog(ev))})
		}
		if exp.MustExecute && nExec == 0 {
			h.violate(Violation{Property: "C04", Class: "body_not_run", Lint: n, Op: i,
				Detail: fmt.Sprintf("the rule body was not run although the object is in scope, applicable and inside the window (scope=%s cfg=%s window=%s): %s", scope, cst, win, fmtLog(ev))})
		}
		stOK := false
		for _, s := range exp.Statuses {
			if got.S == s {
				stOK = true
			}
		}
		var wantS []string
		for _, s := range exp.Statuses {
			wantS = append(wantS, statusName(s))
		}
		if !stOK {
			h.violate(Violation{Property: "C04", Class: "lifecycle_status", Lint: n, Op: i, Site: exp.Why,
				Detail:   fmt.Sprintf("%s (scope=%s cfg=%s applies=%v window=%s/%s scripted=%s panic=%s@%s)", exp.Why, scope, cst, act.Applies, def.Window, win, statusName(act.Status), act.Panic, act.PanicAt),
				Expected: strings.Join(wantS, "|"), Got: got.String()})
			if exp.PanicCase {
				h.violate(Violation{Property: "C01", Class: "panic_not_fatal", Lint: n, Op: i,
					Detail: "a panicking certificate lint did not come back as that lint's fatal result", Expected: "fatal", Got: got.String()})
			}
			if cst == "inapplicable" {
				h.violate(Violation{Property: "C11", Class: "illtyped_not_fatal", Lint: n, Op: i, Site: "probe",
					Detail: "a section that cannot be applied did not make the lint report fatal", Expected: strings.Join(wantS, "|"), Got: got.String()})
			}
			continue
		}
		if exp.Details != nil && got.D != *exp.Details {
			h.violate(Violation{Property: "C04", Class: "lifecycle_details", Lint: n, Op: i, Site: exp.Why,
				Detail: "the details text is not what the rule body returned (" + exp.Why + ")", Expected: fmt.Sprintf("%q", *exp.Details), Got: fmt.Sprintf("%q", got.D)})
		}
		if exp.NonEmptyD && got.S == 7 && strings.TrimSpace(got.D) == "" {
			h.violate(Violation{Property: "C11", Class: "config_error_no_message", Lint: n, Op: i, Detail: "fatal configuration result without a message"})
		}
		if exp.NoMarker && strings.Contains(got.D, panicMarker) {
			h.violate(Violation{Property: "C11", Class: "illtyped_recovered_panic", Lint: n, Op: i, Site: "probe",
				Detail: "an inapplicable section is reported as a recovered panic instead of a configuration error", Got: got.String()})
		}
		if exp.PanicCase {
			h.ctr.inc("panic_contained")
		}
		if cst == "inapplicable" && got.S == 7 {
			h.ctr.inc("config_error_fatal")
		}
		if got.S == 2 {
			h.ctr.inc("ne_path")
		}
		if scope == "out" {
			h.ctr.inc("scope_gate_na")
		}
	}
}

func fmtLog(ev []CallEvent) string {
	var parts []string
	for _, e := range ev {
		s := fmt.Sprintf("#%d.%s", e.Inst, e.Method)
		if e.Ret != "" {
			s += "=" + e.Ret
		}
		parts = append(parts, s)
	}
	return "[" + strings.Join(parts, " ") + "]"
}

// doDirect: for every real lint of the registry, the framework's result must
// be what the lint's own CheckApplies / Execute give on a fresh, freshly
// configured instance (judged only for clear-cut scope and window positions).
func (h *histState) doDirect(i int, op *Op) {
	o := h.objs[op.Obj]
	m := h.mregs[op.Reg]
	reg := h.regs[op.Reg]
	cfg := reg.GetConfiguration()
	a, err1 := parseObj(o.spec.Kind, o.spec.DER)
	b, err2 := parseObj(o.spec.Kind, o.spec.DER)
	if err1 != nil || err2 != nil {
		return
	}
	dpath := op.Path
	if dpath == "" || ((dpath == "deprecated" || dpath == "depsource") && o.spec.Kind != KCert) {
		dpath = "ex"
	}
	cs, _ := h.lintCall(i, a, reg, dpath, op.Perm, m.Sel)
	h.ctr.inc("direct_path_" + dpath)
	h.log.Add("op %d direct obj=%d reg=%d path=%s -> %s", i, op.Obj, op.Reg, dpath, cs.hash())
	if cs.Panic != "" || cs.Hung {
		return
	}
	h.ctr.inc("direct_ops")
	type direct struct {
		status  int
		details string
		judged  bool
		why     string
	}
	run := func(name, source string, eff, ineff time.Time, mk func() (inst any, applies func() bool, exec func() *lint.LintResult)) (d direct) {
		sc := scopeOf(b, source)
		if sc == "out" {
			return direct{status: 1, judged: true, why: "out of scope"}
		}
		if sc == "unclear" {
			return direct{}
		}
		defer func() {
			if r := recover(); r != nil {
				if b.Kind == KCert {
					d = direct{status: 7, judged: true, why: "the lint's own code panics", details: "\x00panic"}
				} else {
					d = direct{}
				}
			}
		}()
		inst, applies, exec := mk()
		if err := cfg.MaybeConfigure(inst, name); err != nil {
			return direct{status: 7, details: err.Error(), judged: true, why: "configuration error"}
		}
		if !applies() {
			return direct{status: 1, judged: true, why: "CheckApplies false"}
		}
		switch windowPos(b, eff, ineff) {
		case "outside":
			return direct{status: 2, judged: true, why: "outside the window"}
		case "unjudged":
			return direct{}
		}
		r := exec()
		if r == nil {
			return direct{}
		}
		return direct{status: int(r.Status), details: r.Details, judged: true, why: "the lint's own Execute"}
	}
	judge := func(name string, d direct) {
		if !d.judged {
			return
		}
		got, ok := cs.Results[name]
		if !ok {
			return
		}
		h.checks++
		h.ctr.inc("direct_compared")
		if got.S != d.status || (d.details != "\x00panic" && got.D != d.details) {
			h.violate(Violation{Property: "C04", Class: "framework_alters_verdict", Lint: name, Op: i, Site: d.why,
				Detail:   fmt.Sprintf("the framework's result differs from the lint's own verdict on a fresh, freshly configured instance (%s; object %s)", d.why, o.spec.ID),
				Expected: Res{S: d.status, D: strings.TrimPrefix(d.details, "\x00")}.String(), Got: got.String()})
		}
	}
	switch o.spec.Kind {
	case KCert:
		for _, l := range reg.CertificateLints().Lints() {
			if isProbeName(l.Name) {
				continue
			}
			l := l
			judge(l.Name, run(l.Name, string(l.Source), l.EffectiveDate, l.IneffectiveDate, func() (any, func() bool, func() *lint.LintResult) {
				inst := l.Lint()
				return inst, func() bool { return inst.CheckApplies(b.Cert) }, func() *lint.LintResult { return inst.Execute(b.Cert) }
			}))
		}
	case KCRL:
		for _, l := range reg.RevocationListLints().Lints() {
			if isProbeName(l.Name) {
				continue
			}
			l := l
			judge(l.Name, run(l.Name, "none", l.EffectiveDate, l.IneffectiveDate, func() (any, func() bool, func() *lint.LintResult) {
				inst := l.Lint()
				return inst, func() bool { return inst.CheckApplies(b.CRL) }, func() *lint.LintResult { return inst.Execute(b.CRL) }
			}))
		}
	case KOCSP:
		for _, l := range reg.OcspResponseLints().Lints() {
			if isProbeName(l.Name) {
				continue
			}
			l := l
			judge(l.Name, run(l.Name, "none", l.EffectiveDate, l.IneffectiveDate, func() (any, func() bool, func() *lint.LintResult) {
				inst := l.Lint()
				return inst, func() bool { return inst.CheckApplies(b.OCSP) }, func() *lint.LintResult { return inst.Execute(b.OCSP) }
			}))
		}
	}
}

// ---------------------------------------------------------------- generation

var probeDates = []time.Time{
	time.Date(2012, 6, 1, 12, 0, 0, 0, time.UTC), // before every probe window
	time.Date(2019, 6, 1, 12, 0, 0, 0, time.UTC), // inside
	time.Date(2023, 6, 1, 12, 0, 0, 0, time.UTC), // after
	time.Date(2015, 12, 31, 18, 0, 0, 0, time.UTC), // within a day of the effective date: not judged
}

func redateAny(o *ObjSpec, to time.Time) *ObjSpec {
	if o.Kind == KOCSP {
		return redateOCSP(o, to)
	}
	return redate(o, to)
}

var detailPool = []string{"", "scripted details", "a\nb\tc", "ünïcödé ✓", "\xff\xfe not utf8 \x80", "   ", "'x' panicked. Error: not really", strings.Repeat("long ", 200), "{\"json\":true}", "<html>&amp;</html>",
	// findings that say a lot: tens of kilobytes from one lint (whatever bounds or pools what a run may say must not cut it)
	strings.Repeat("a very long finding text; ", 900), strings.Repeat("x", 70000)}

func genAction(g *RNG, def *probeDef, prop string) Action {
	a := Action{Applies: g.Chance(0.78)}
	if prop == "C01" {
		a.Status = g.Range(1, 7)
	} else {
		a.Status = pick(g, []int{1, 2, 3, 4, 5, 6, 7, 3, 6, 0, 8, 100, -1})
	}
	a.Details = pick(g, detailPool)
	if def.Configurable && g.Chance(0.5) {
		a.Echo = true
	}
	if (def.Kind == KCert && g.Chance(0.15)) || (def.Kind != KCert && g.Chance(0.03)) {
		a.Panic = pick(g, []string{"string", "error", "runtime", "custom", "string", "error", "runtime", "custom", "nilerr", "evilstringer"})
		ats := []string{"execute", "execute", "applies"}
		if def.Configurable {
			ats = append(ats, "configure")
		}
		a.PanicAt = pick(g, ats)
	}
	return a
}

func genFault(seed uint64, prop, tier string) *Plan {
	g := newRNG(seed)
	meta := readMetaTable()
	p := &Plan{Engine: "fault", Prop: prop, Seed: seed, Tier: tier, Knobs: map[string]any{}}
	hg := &histGen{g: g, meta: meta, p: p, prof: profileFor("C08")}

	// ---- objects: scope classes x window positions x kinds
	type want struct {
		kind   int
		source string
		class  string
	}
	wants := []want{
		{KCert, "CABF_BR", "in"}, {KCert, "CABF_BR", "out"}, {KCert, "CABF_SMIME_BR", "in"}, {KCert, "CABF_SMIME_BR", "out"},
		{KCert, "CABF_CS_BR", "in"}, {KCert, "CABF_CS_BR", "out"}, {KCRL, "", ""}, {KOCSP, "", ""}, {KCert, "", ""},
	}
	nObj := g.Range(2, 5)
	for _, wi := range g.subset(len(wants), nObj) {
		w := wants[wi]
		o := pickClass(g, func(e *corpusClassEntry) bool {
			return e.Kind == w.kind && (w.source == "" || e.Scope[w.source] == w.class)
		})
		if o == nil {
			o = pickClass(g, func(e *corpusClassEntry) bool { return e.Kind == w.kind })
		}
		if o == nil {
			continue
		}
		o = maybeSynth(g, corpusIndex(), o, 0.3)
		if o.Kind != KOCSP && g.Chance(0.1) {
			// an object dated centuries away from every window (dates only GeneralizedTime can express; before 1678 and
			// after 2262 an instant does not fit a 64-bit count of nanoseconds)
			synthForceGenTime = true
			var so *ObjSpec
			if o.Kind == KCRL {
				so = synthCRL(g, corpusIndex())
			} else {
				so = synthCert(g, corpusIndex())
			}
			synthForceGenTime = false
			if so != nil {
				far := time.Date(pick(g, []int{1600, 1677, 2263, 2300, 2500}), 6, 1, 12, 0, 0, 0, time.UTC)
				if v := redate(so, far); v != nil {
					p.Objects = append(p.Objects, *v)
					continue
				}
			}
		}
		if g.Chance(0.75) {
			if v := redateAny(o, pick(g, probeDates)); v != nil {
				o = v
			}
		}
		p.Objects = append(p.Objects, *o)
	}
	if len(p.Objects) == 0 {
		die(2, "fault: no corpus object available")
	}

	// ---- configurations aimed at configurable probes (and the real configurable lints)
	nCfg := g.Range(1, 3)
	for i := 0; i < nCfg; i++ {
		cls := pick(g, []string{"option", "option", "illtyped", "illtyped", "neutral", "odd", "example"})
		c := genCfgFor(g, meta, cls, 0.8)
		if !tomlOK(c.Text) {
			c = CfgSpec{Class: "empty", Text: "", Via: "string"}
		}
		p.Cfgs = append(p.Cfgs, c)
	}

	all := map[string]bool{}
	for _, n := range meta.Names {
		all[n] = true
	}
	hg.mregs = []*ModelReg{{Sel: all, Cfg: -1}}
	loaded := map[int]bool{}
	hg.ensureLoaded = func(c int) bool {
		if c >= 0 && !loaded[c] {
			loaded[c] = true
			p.Ops = append(p.Ops, Op{K: "loadcfg", Cfg: c})
		}
		return true
	}

	// ---- registries: probes (by pattern or by name) plus a few real lints
	probeNames := func(kind int) []string {
		var out []string
		for _, d := range probeDefs {
			if d.Kind == kind {
				out = append(out, d.Name)
			}
		}
		return out
	}
	nReg := g.Range(1, 3)
	for r := 0; r < nReg; r++ {
		var o *FilterOpts
		switch g.Intn(4) {
		case 0:
			s := "zsimprobe"
			o = &FilterOpts{NameFilter: &s}
		case 1: // probes of one kind + some real lints
			k := p.Objects[g.Intn(len(p.Objects))].Kind
			names := append([]string(nil), probeNames(k)...)
			real := meta.namesOfKind(k, true)
			var keep []string
			for _, n := range real {
				if !meta.ByName[n].Probe {
					keep = append(keep, n)
				}
			}
			for _, j := range g.subset(len(keep), g.Range(0, 12)) {
				names = append(names, keep[j])
			}
			o = &FilterOpts{IncludeNames: names}
		case 2: // a random subset of probes of all kinds
			var names []string
			for _, j := range g.subset(len(probeDefs), g.Range(3, 40)) {
				names = append(names, probeDefs[j].Name)
			}
			o = &FilterOpts{IncludeNames: names}
		case 3: // everything (real lints run next to the probes)
			o = nil
		}
		if o != nil {
			hg.emitFilterOpts(0, o)
		}
	}

	nOps := g.Range(8, 28)
	if tier == "thorough" {
		nOps = g.Range(10, 50)
	}
	p.Knobs["n_ops_target"] = nOps
	// C01: drive presence-flag masks explicitly with probes only
	if prop == "C01" {
		s := "zsimprobe_.*_(rfc|community)_plain_none"
		fr := hg.emitFilterOpts(0, &FilterOpts{NameFilter: &s})
		for k := 0; k < 3 && fr >= 0; k++ {
			kind := g.Intn(3)
			var obj = -1
			for oi := range p.Objects {
				if p.Objects[oi].Kind == kind {
					obj = oi
				}
			}
			if obj < 0 {
				continue
			}
			mask := g.Intn(16)
			sc := Script{}
			names := hg.mregs[fr].namesOfKind(meta, kind)
			var sts []int
			for b := 0; b < 4; b++ {
				if mask&(1<<b) != 0 {
					sts = append(sts, 4+b)
				}
			}
			for j, n := range names {
				st := pick(g, []int{1, 2, 3})
				if j < len(sts) {
					st = sts[j]
				} else if len(sts) > 0 && g.Chance(0.3) {
					st = pick(g, sts)
				}
				sc[n] = Action{Applies: true, Status: st, Details: pick(g, detailPool)}
			}
			p.Ops = append(p.Ops, Op{K: "probe", Obj: obj, Reg: fr, Script: sc, Note: fmt.Sprintf("flag mask %04b", mask)})
		}
	}
	for len(p.Ops) < nOps {
		reg := g.Intn(len(hg.mregs))
		obj := g.Intn(len(p.Objects))
		switch g.weighted([]int{60, 10, 12, 6, 6}) {
		case 0:
			sc := Script{}
			for _, n := range hg.mregs[reg].namesOfKind(meta, p.Objects[obj].Kind) {
				if d := probeByName[n]; d != nil && g.Chance(0.85) {
					sc[n] = genAction(g, d, prop)
				}
			}
			pop := Op{K: "probe", Obj: obj, Reg: reg, Fresh: g.Chance(0.3), Script: sc}
			// the same lifecycle through the other ways of running a registry's lints: each lint's own
			// Execute in a seeded order, and the deprecated Lint values of ByName / BySource
			switch g.Intn(10) {
			case 0, 1:
				pop.Path, pop.Perm = "perlint", g.U64()|1
			case 2:
				pop.Path = "deprecated"
			case 3:
				pop.Path = "depsource"
			}
			p.Ops = append(p.Ops, pop)
		case 1:
			dop := Op{K: "direct", Obj: obj, Reg: reg}
			switch g.Intn(10) {
			case 0:
				dop.Path, dop.Perm = "perlint", g.U64()|1
			case 1:
				dop.Path = "deprecated"
			case 2:
				dop.Path = "depsource"
			}
			p.Ops = append(p.Ops, dop)
		case 2:
			c := g.Intn(len(p.Cfgs)+1) - 1
			hg.ensureLoaded(c)
			p.Ops = append(p.Ops, Op{K: "setcfg", Reg: reg, Cfg: c})
			hg.mregs[reg].Cfg = c
		case 3:
			hg.emitLint(obj, reg, g.Chance(0.4))
		case 4:
			if len(hg.mregs) < 6 {
				hg.emitFilter(reg)
			}
		}
	}
	if g.Chance(0.5) {
		p.Ops = append(p.Ops, Op{K: "fresh", Reg: g.Intn(len(hg.mregs))})
	}
	return p
}

// genCfgFor is genCfg with a bias towards probe targets (the FAULT engine's components).
func genCfgFor(g *RNG, meta *MetaTable, class string, probeBias float64) CfgSpec {
	if class != "illtyped" && class != "odd" && class != "option" {
		return genCfg(g, meta, class)
	}
	for tries := 0; tries < 6; tries++ {
		c := genCfg(g, meta, class)
		target := c.Ill
		if class == "option" && len(c.Targets) > 0 {
			target = c.Targets[0]
		}
		isProbe := isProbeName(target)
		if isProbe == g.Chance(probeBias) || tries == 5 {
			return c
		}
	}
	return genCfg(g, meta, class)
}

func runFault(p *Plan, keepLog bool) *RunResult {
	r := runHist(p, keepLog)
	r.Engine = "fault"
	return r
}

var _ = sort.Strings
