package main

// The plan is the explicit form of one run: everything the seed decided.
// A worker either derives it from the seed or reads it from a replay file;
// execution is a pure function of the plan and the code under test.

import (
	"encoding/json"
	"os"
)

type ReaderFault struct {
	Chunks      []int `json:"chunks,omitempty"`        // chunk sizes, cycled; empty = one shot
	ErrAfter    int   `json:"err_after"`               // -1: none; k: a non-EOF error once k bytes were delivered
	ErrWithData bool  `json:"err_with_data,omitempty"` // the failing Read also returns n>0 bytes
	EOFAfter    int   `json:"eof_after"`               // -1: none; k: clean EOF after k bytes (torn file)
	EOFWithData bool  `json:"eof_with_data,omitempty"` // the last chunk is returned together with io.EOF
}

type CfgSpec struct {
	Class   string   `json:"class"` // empty | neutral | example | option | illtyped | odd
	Text    string   `json:"text"`
	Targets []string `json:"targets,omitempty"` // lints (or probes) the text names
	Ill     string   `json:"ill,omitempty"`     // lint whose section cannot be applied
	IllShape string  `json:"ill_shape,omitempty"`
	MustFatal bool   `json:"must_fatal,omitempty"` // the shape is one the property calls inapplicable
	TextWithoutIll string `json:"text_without_ill,omitempty"`

	Via   string       `json:"via,omitempty"` // string | reader | file | file_missing | file_dir
	Fault *ReaderFault `json:"fault,omitempty"`
	// predicted by the generator from the bytes the transport will deliver:
	Delivered string `json:"delivered,omitempty"`
	ExpectErr bool   `json:"expect_err,omitempty"`
	MayErr    bool   `json:"may_err,omitempty"`
}

type Op struct {
	K      string      `json:"k"`
	Obj    int         `json:"obj,omitempty"`
	Fresh  bool        `json:"fresh,omitempty"`
	Reg    int         `json:"reg,omitempty"`
	Path   string      `json:"path,omitempty"`
	Perm   uint64      `json:"perm,omitempty"`
	Opts   *FilterOpts `json:"opts,omitempty"`
	Cfg    int         `json:"cfg,omitempty"`
	Name   string      `json:"name,omitempty"`
	Source string      `json:"source,omitempty"`
	Script Script      `json:"script,omitempty"`
	R      int         `json:"r,omitempty"`
	T      int64       `json:"t,omitempty"`  // clock op: the simulated instant (unix seconds); repeat op: clock advance per repetition (seconds)
	Note   string      `json:"note,omitempty"`
	Inj    uint64      `json:"inj,omitempty"` // lint op: make the rule that executes statement (Inj mod N) of this call panic there (fine-grain build)
}

type Plan struct {
	Engine  string         `json:"engine"`
	Prop    string         `json:"prop"`
	Seed    uint64         `json:"seed"`
	Tier    string         `json:"tier"`
	Knobs   map[string]any `json:"knobs,omitempty"`
	Objects []ObjSpec      `json:"objects,omitempty"`
	Cfgs    []CfgSpec      `json:"cfgs,omitempty"`
	Ops     []Op           `json:"ops,omitempty"`

	// SCHED
	Clients  [][]Op     `json:"clients,omitempty"`
	Schedule *Schedule  `json:"schedule,omitempty"`
	// CLI
	Steps []CLIStep `json:"steps,omitempty"`

	// filled in by the driver when a plan is written as a replay file
	Violation *Violation `json:"violation,omitempty"`
	Minimised bool       `json:"minimised,omitempty"`
	Note      string     `json:"note,omitempty"`
}

func readPlan(path string) (*Plan, error) {
	b, err := os.ReadFile(path)
	if err != nil {
		return nil, err
	}
	var p Plan
	if err := json.Unmarshal(b, &p); err != nil {
		return nil, err
	}
	return &p, nil
}

func writePlan(path string, p *Plan) error {
	b, err := json.MarshalIndent(p, "", " ")
	if err != nil {
		return err
	}
	return os.WriteFile(path, b, 0o644)
}

func (p *Plan) clone() *Plan {
	b, _ := json.Marshal(p)
	var q Plan
	_ = json.Unmarshal(b, &q)
	return &q
}

// summary is what goes into evidence samples: the plan without object bytes.
func (p *Plan) summary() map[string]any {
	var objs []string
	for _, o := range p.Objects {
		objs = append(objs, o.ID)
	}
	m := map[string]any{"seed": p.Seed, "engine": p.Engine, "objects": objs, "knobs": p.Knobs}
	if len(p.Ops) > 0 {
		ops := p.Ops
		if len(ops) > 14 {
			ops = ops[:14]
		}
		m["ops_first"] = ops
		m["n_ops"] = len(p.Ops)
	}
	if len(p.Cfgs) > 0 {
		var cs []map[string]any
		for _, c := range p.Cfgs {
			cs = append(cs, map[string]any{"class": c.Class, "text": clip(c.Text, 160), "via": c.Via, "fault": c.Fault})
		}
		m["cfgs"] = cs
	}
	if p.Schedule != nil {
		m["schedule"] = p.Schedule.summary()
		var n []int
		for _, c := range p.Clients {
			n = append(n, len(c))
		}
		m["client_ops"] = n
		if len(p.Clients) > 0 {
			ops := p.Clients[0]
			if len(ops) > 6 {
				ops = ops[:6]
			}
			m["client0_ops_first"] = ops
		}
	}
	if len(p.Steps) > 0 {
		st := p.Steps
		if len(st) > 4 {
			st = st[:4]
		}
		var ss []any
		for _, s := range st {
			ss = append(ss, s.summary())
		}
		m["steps_first"] = ss
		m["n_steps"] = len(p.Steps)
	}
	return m
}
