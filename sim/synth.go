package main

// Synthetic workload objects: seeded certificates and CRLs assembled field by
// field (DER written by hand, public key / signature algorithm / signature
// bits borrowed from a corpus certificate - zlint never verifies signatures).
// They are workload diversity for the simulation (unusual but parseable
// objects: repeated subject attributes, unsorted / IDN / onion SAN names, EKU
// lists of unknown purposes, policy qualifiers in every string type, odd
// reason codes, ...), kept only if the real parser accepts them. No claim on
// the input-quantified properties (C02, C09, C17, ...) is made from them.

import (
	"encoding/asn1"
	"fmt"
	"math/big"
	"net"
	"strings"
	"time"
	"unicode/utf16"
)

func derLen(n int) []byte {
	if n < 0x80 {
		return []byte{byte(n)}
	}
	var b []byte
	for x := n; x > 0; x >>= 8 {
		b = append([]byte{byte(x)}, b...)
	}
	return append([]byte{0x80 | byte(len(b))}, b...)
}

func tlv(tag byte, parts ...[]byte) []byte {
	n := 0
	for _, p := range parts {
		n += len(p)
	}
	out := append([]byte{tag}, derLen(n)...)
	for _, p := range parts {
		out = append(out, p...)
	}
	return out
}

func dseq(parts ...[]byte) []byte { return tlv(0x30, parts...) }
func dset(parts ...[]byte) []byte { return tlv(0x31, parts...) }
func doid(s string) []byte {
	var o asn1.ObjectIdentifier
	for _, p := range strings.Split(s, ".") {
		var n int
		fmt.Sscan(p, &n)
		o = append(o, n)
	}
	b, err := asn1.Marshal(o)
	if err != nil {
		return []byte{0x06, 0x01, 0x2a}
	}
	return b
}
func dint(n *big.Int) []byte {
	b, _ := asn1.Marshal(n)
	return b
}
func dbool(v bool) []byte {
	if v {
		return []byte{0x01, 0x01, 0xff}
	}
	return []byte{0x01, 0x01, 0x00}
}
func doctet(b []byte) []byte { return tlv(0x04, b) }
func dbits(b []byte, unused byte) []byte {
	return tlv(0x03, []byte{unused}, b)
}

// dstr encodes a string in the given ASN.1 string type.
func dstr(kind string, s string) []byte {
	switch kind {
	case "printable":
		return tlv(0x13, []byte(s))
	case "ia5":
		return tlv(0x16, []byte(s))
	case "teletex":
		return tlv(0x14, []byte(s))
	case "visible":
		return tlv(0x1a, []byte(s))
	case "bmp":
		u := utf16.Encode([]rune(s))
		b := make([]byte, 0, 2*len(u))
		for _, c := range u {
			b = append(b, byte(c>>8), byte(c))
		}
		return tlv(0x1e, b)
	case "universal":
		var b []byte
		for _, r := range s {
			b = append(b, byte(r>>24), byte(r>>16), byte(r>>8), byte(r))
		}
		return tlv(0x1c, b)
	case "teletex-latin1":
		var b []byte
		for _, r := range s {
			if r < 256 {
				b = append(b, byte(r))
			} else {
				b = append(b, '?')
			}
		}
		return tlv(0x14, b)
	}
	return tlv(0x0c, []byte(s))
}

func dtime(t time.Time, forceGeneralized bool) []byte {
	t = t.UTC()
	if !forceGeneralized && t.Year() >= 1950 && t.Year() < 2050 {
		return tlv(0x17, []byte(t.Format("060102150405Z")))
	}
	return tlv(0x18, []byte(t.Format("20060102150405Z")))
}

// ---------------------------------------------------------------- pools

var synthAttrs = []struct{ oid, kind string }{
	{"2.5.4.3", "cn"}, {"2.5.4.6", "c"}, {"2.5.4.7", "l"}, {"2.5.4.8", "st"}, {"2.5.4.10", "o"}, {"2.5.4.11", "ou"},
	{"2.5.4.5", "serial"}, {"2.5.4.9", "street"}, {"2.5.4.17", "postal"}, {"2.5.4.15", "bizcat"}, {"2.5.4.42", "given"}, {"2.5.4.4", "sur"},
	{"1.2.840.113549.1.9.1", "email"}, {"0.9.2342.19200300.100.1.25", "dc"}, {"1.3.6.1.4.1.311.60.2.1.3", "jc"}, {"1.3.6.1.4.1.311.60.2.1.2", "jst"},
	{"1.3.6.1.4.1.311.60.2.1.1", "jl"}, {"2.5.4.97", "orgid"}, {"2.5.4.12", "title"}, {"2.5.4.65", "pseudonym"},
}

var synthHosts = []string{
	"example.com", "www.example.com", "*.example.com", "xn--ea-8tb.example.com", "xn--0.example.com", "xn--mnchen-3ya.de", "EXAMPLE.org", "a_b.example.net",
	"exämple.com", "foo..example.com", "-bad.example.com", "verylonglabel" + strings.Repeat("x", 60) + ".example.com", "localhost", "test.local", "10.0.0.1", "example.invalidtld",
	"zqktlwi4fecvo6ri.onion", "www.zqktlwi4fecvo6ri.onion", "pg6mmjiyjmcrsslvykfwnntlaru7p5svn6y2ymmju6nubxndf4pscryd.onion", "a.pg6mmjiyjmcrsslvykfwnntlaru7p5svn6y2ymmju6nubxndf4pscryd.onion",
	"www.example.abarth", "shop.example.doosan", "a.example.iinet", "x.example.htc", "example.active", "example.app", "www.example.dev", "example.xn--p1ai",
	"mail.example.co.uk", "*.*.example.com", "example.com.", " example.com", "xn--a.example.com", "sub.*.example.com", "1.example.com", "b.example.com", "a.example.com", "c.example.com",
}

// synthIDNHosts: names whose labels are A-labels of every sort - well-formed and NFC, well-formed but not
// NFC (decomposed sequences), malformed Punycode, mixed case prefixes, an A-label under a wildcard, several
// A-labels in one name. A certificate of the "idn" archetype takes several of them in a seeded order, so that
// rules walking the labels meet them in every relative order.
var synthIDNHosts = []string{
	"xn--9ca.example.com", "xn--mnchen-3ya.de", "www.xn--mnchen-3ya.example", "xn--ri7csaa.example.org", "xn--p1ai", "shop.xn--p1ai",
	"xn--ex-8tb.example.com", "xn--a-gcb.example.net", "xn--munchen-gie.de", "xn--nda82i.example.com", "a.xn--ex-8tb.xn--9ca.example.com",
	"xn--0.example.com", "xn--a.example.com", "xn--.example.com", "xn--zlint.org", "xn--12311613412431243.com", "www.xn--0.xn--9ca.example.com",
	"XN--9CA.example.com", "xN--mnchen-3ya.de", "*.xn--9ca.example.com", "xn--9ca.xn--ex-8tb.example.org", "xn--ex-8tb.xn--0.example.org",
	"xn--0.xn--ex-8tb.example.org", "plain.example.com", "xn--80ak6aa92e.com", "xn--e1afmkfd.xn--p1ai",
}

// synthURIs: uniform resource identifiers whose authority is a full name, a single label, an address literal
// of either family (scoped, with a port), empty, or missing
var synthURIs = []string{
	"https://example.com/x", "ldap://example.com", "urn:uuid:1", "http://*.example.com", "no-scheme",
	"https://localhost/", "https://intranet-host/app", "http://example", "https://10.0.0.1/", "https://[2001:db8::1]:8443/x", "https://[fe80::1%25eth0]/",
	"https://fe80::1%25eth0/", "https://user:pw@host-only/", "https:///path-only", "https://xn--0.example.com/", "ldap://localhost:389/dc=example", "http://256.1.1.1/", "https://example.com:443",
	"HTTPS://EXAMPLE.COM/", "https://example.invalidtld/", "file:///etc/passwd", "https://a_b/", "http://1/", "tag:example.com,2024:x",
}

var synthEKUs = []string{
	"1.3.6.1.5.5.7.3.1", "1.3.6.1.5.5.7.3.2", "1.3.6.1.5.5.7.3.3", "1.3.6.1.5.5.7.3.4", "1.3.6.1.5.5.7.3.8", "1.3.6.1.5.5.7.3.9", "2.5.29.37.0",
	"1.3.6.1.4.1.311.10.3.12", "1.3.6.1.4.1.311.20.2.2", "1.2.3.4.5.6", "1.3.6.1.5.5.7.3.17", "1.3.6.1.4.1.11129.2.4.4",
}

var synthPolicies = []string{
	"2.23.140.1.2.1", "2.23.140.1.2.2", "2.23.140.1.2.3", "2.23.140.1.1", "2.23.140.1.3", "2.23.140.1.4.1", "2.23.140.1.5.1.1", "2.23.140.1.5.1.3", "2.23.140.1.5.2.2",
	"2.23.140.1.5.3.1", "2.23.140.1.5.4.3", "2.5.29.32.0", "1.3.6.1.4.1.99999.1.1", "2.16.840.1.114412.2.1", "2.23.140.1.31",
}

var synthTexts = []string{
	"Example Org", "Org &amp; Co", "Tëst Ünïcode", " leading space", "trailing space ", "", "US", "us", "USA", "DE", "XX", "12345", "Private Organization", "Government Entity",
	"Caf\xe9 M\xfcnchen", "\xc2", "abc\xffdef", "株式会社 例", "Ελληνικά Α.Ε.", "nul\x00byte", "tab\there", "line\nbreak", "del\x7f", "esc\x1b[31m", "Z\u00fcrich", "\u00a0nbsp", "emoji \U0001F600",
	"O'Reilly, Inc.", strings.Repeat("long", 40), "NTRUS-123456789", "VATDE-123456789", "a@example.com", "John", "Doe", "Ünïcödé ✓", "<b>bold</b>", "Some-State", "Berlin", "-", ".", "N/A", "*",
}

func synthStringKind(g *RNG, attr string) string {
	switch attr {
	case "c", "jc":
		return pick(g, []string{"printable", "printable", "printable", "utf8", "ia5"})
	case "email", "dc":
		return pick(g, []string{"ia5", "ia5", "utf8", "printable"})
	case "serial":
		return pick(g, []string{"printable", "printable", "utf8"})
	}
	return pick(g, []string{"utf8", "utf8", "utf8", "printable", "printable", "bmp", "teletex", "teletex-latin1", "universal", "ia5"})
}

// synthForceManyNames > 0 makes every synthetic certificate a many-names one with that many names.
var synthForceManyNames int

// synthForceCRLEntries > 0 fixes the number of entries of large synthetic CRLs.
var synthForceCRLEntries int

// synthForceBigCRL makes every synthetic CRL a large one (set around a draw).
var synthForceBigCRL bool

func synthBigCRL(g *RNG, idx []string) *ObjSpec {
	synthForceBigCRL = true
	defer func() { synthForceBigCRL = false }()
	return synthCRL(g, idx)
}

// synthForceWeakKey makes every synthetic certificate carry a Fermat-weak RSA key (set around a
// draw by generators that aim at the Fermat lint's option).
var synthForceWeakKey bool

func synthWeakKeyCert(g *RNG, idx []string) *ObjSpec {
	synthForceWeakKey = true
	defer func() { synthForceWeakKey = false }()
	return synthCert(g, idx)
}

// weakSPKI is an RSA SubjectPublicKeyInfo whose modulus comes from the pool of Fermat-weak
// moduli: an object on which the round count configured for the Fermat lint decides the verdict.
// synthForceWeakIdx >= 0 fixes which modulus of the pool weak keys get (several distinct certificates for one key).
var synthForceWeakIdx = -1

func weakSPKI(g *RNG) []byte {
	e := fermatPool[g.Intn(len(fermatPool))]
	if synthForceWeakIdx >= 0 {
		e = fermatPool[synthForceWeakIdx%len(fermatPool)]
	}
	n, _ := new(big.Int).SetString(e.N, 16)
	exp := pick(g, []int64{65537, 65537, 65537, 3, 17})
	key := dseq(dint(n), dint(big.NewInt(exp)))
	return dseq(dseq(doid("1.2.840.113549.1.1.1"), []byte{0x05, 0x00}), dbits(key, 0))
}

func synthName(g *RNG, hosts []string, rich bool) []byte {
	n := g.Range(1, 5)
	if rich {
		n = g.Range(3, 10)
	}
	var rdnATVs [][][]byte
	for i := 0; i < n; i++ {
		a := pick(g, synthAttrs)
		if i > 0 && g.Chance(0.25) {
			// repeat an attribute type already used
			a = synthAttrs[g.Intn(6)]
		}
		v := pick(g, synthTexts)
		switch a.kind {
		case "cn":
			if len(hosts) > 0 && g.Chance(0.7) {
				v = pick(g, hosts)
			} else if g.Chance(0.5) {
				v = pick(g, synthHosts)
			}
		case "c", "jc":
			v = pick(g, []string{"US", "DE", "GB", "XX", "us", "USA", "", "FR", "ZZ"})
		case "email":
			v = pick(g, []string{"a@example.com", "not-an-email", "A@EXAMPLE.COM", "ü@example.com"})
		}
		atv := dseq(doid(a.oid), dstr(synthStringKind(g, a.kind), v))
		if g.Chance(0.06) && len(rdnATVs) > 0 {
			// multi-valued RDN
			rdnATVs[len(rdnATVs)-1] = append(rdnATVs[len(rdnATVs)-1], atv)
			continue
		}
		rdnATVs = append(rdnATVs, [][]byte{atv})
	}
	var rdns [][]byte
	for _, a := range rdnATVs {
		rdns = append(rdns, dset(a...))
	}
	return dseq(rdns...)
}

func ctxPrim(tag int, b []byte) []byte { return tlv(0x80|byte(tag), b) }
func ctxCons(tag int, parts ...[]byte) []byte {
	return tlv(0xa0|byte(tag), parts...)
}

func synthGeneralNames(g *RNG, hosts []string) []byte {
	var gns [][]byte
	for _, h := range hosts {
		gns = append(gns, ctxPrim(2, []byte(h)))
	}
	for k := g.Intn(3); k > 0; k-- {
		switch g.Intn(6) {
		case 0:
			gns = append(gns, ctxPrim(1, []byte(pick(g, []string{"a@example.com", "b@example.org", "", "not an email", "Ü@example.com"}))))
		case 1:
			gns = append(gns, ctxPrim(6, []byte(pick(g, synthURIs))))
		case 2:
			ip := pick(g, []net.IP{net.IPv4(10, 0, 0, 1).To4(), net.IPv4(8, 8, 8, 8).To4(), net.IPv4(192, 168, 1, 1).To4(), net.ParseIP("2001:db8::1"), net.ParseIP("fe80::1"), {1, 2, 3}})
			gns = append(gns, ctxPrim(7, ip))
		case 3:
			gns = append(gns, synthSmtpUTF8Mailbox(g))
		case 4:
			gns = append(gns, ctxCons(4, synthName(g, nil, false)))
		case 5:
			gns = append(gns, ctxPrim(2, []byte(pick(g, synthHosts))))
		}
	}
	if g.Chance(0.3) && len(gns) > 1 {
		p := g.Perm(len(gns))
		out := make([][]byte, len(gns))
		for i, j := range p {
			out[i] = gns[j]
		}
		gns = out
	}
	return dseq(gns...)
}

// synthSmtpUTF8Mailbox: an otherName of type id-on-SmtpUTF8Mailbox whose value is a UTF8String (ASCII,
// non-ASCII, empty), a string of another type, bytes that are not valid UTF-8, a value followed by more bytes
func synthSmtpUTF8Mailbox(g *RNG) []byte {
	var v []byte
	switch g.Intn(9) {
	case 0, 1, 2:
		v = dstr("utf8", pick(g, []string{"ü@example.com", "a@example.com", "медведь@с-балалайкой.рф"}))
	case 3:
		v = dstr("utf8", "")
	case 4:
		v = doctet([]byte("a@example.com"))
	case 5:
		v = dstr(pick(g, []string{"ia5", "printable", "bmp"}), "a@example.com")
	case 6:
		v = tlv(0x0c, []byte("a\xff\xfe@example.com"))
	case 7:
		v = append(dstr("utf8", "a@example.com"), 0x05, 0x00)
	case 8:
		v = dseq(dstr("utf8", "a@example.com"))
	}
	return ctxCons(0, doid("1.3.6.1.5.5.7.8.9"), ctxCons(0, v))
}

// stripTL returns the content octets of a DER TLV.
func stripTL(b []byte) []byte {
	if len(b) < 2 {
		return nil
	}
	if b[1] < 0x80 {
		return b[2:]
	}
	n := int(b[1] & 0x7f)
	if len(b) < 2+n {
		return nil
	}
	return b[2+n:]
}

func dext(oid string, critical bool, value []byte) []byte {
	if critical {
		return dseq(doid(oid), dbool(true), doctet(value))
	}
	return dseq(doid(oid), doctet(value))
}

type donorParts struct {
	spki, sigAlg, sig, issuer []byte
}

// donor borrows SPKI, signature algorithm, signature bits and issuer name from a corpus certificate.
func donor(g *RNG, idx []string) *donorParts {
	for tries := 0; tries < 30; tries++ {
		o := drawCorpusObject(g, idx, KCert)
		if o == nil {
			return nil
		}
		var c struct {
			TBS    asn1.RawValue
			SigAlg asn1.RawValue
			Sig    asn1.BitString
		}
		if _, err := asn1.Unmarshal(o.DER, &c); err != nil {
			continue
		}
		p, err := parseObj(KCert, o.DER)
		if err != nil || len(p.Cert.RawSubjectPublicKeyInfo) == 0 {
			continue
		}
		sig, _ := asn1.Marshal(c.Sig)
		return &donorParts{spki: p.Cert.RawSubjectPublicKeyInfo, sigAlg: c.SigAlg.FullBytes, sig: sig, issuer: p.Cert.RawIssuer}
	}
	return nil
}

var synthBase = time.Date(2010, 1, 1, 0, 0, 0, 0, time.UTC)

// synthForceGenTime makes synthetic objects write their own dates as GeneralizedTime (set around a draw by
// generators that want to move the object to a date UTCTime cannot express).
var synthForceGenTime bool

// synthOddInstant: now and then an object's own date is an unusual one - centuries away (before 1678 and
// after 2262 an instant no longer fits a 64-bit count of nanoseconds), the epoch, or within days of a
// daylight-saving change of some zone (where "ten days later" is a different instant in local calendar
// arithmetic than in UTC).
func synthOddInstant(g *RNG, t time.Time) time.Time {
	switch k := g.Intn(100); {
	case k < 3:
		return time.Date(pick(g, []int{1600, 1677, 1678, 1900, 1969, 1970, 2262, 2263, 2300, 2500, 9999}), time.Month(1+g.Intn(12)), 1+g.Intn(28), g.Intn(24), g.Intn(60), g.Intn(60), 0, time.UTC)
	case k < 11:
		// the last Sundays of March / October (EU), second Sunday of March / first of November (US), first Sundays of April / October (AU)
		y := pick(g, []int{2019, 2021, 2023, 2024, 2025, 2026})
		var days []time.Time
		sunday := func(m time.Month, nth int) time.Time { // nth Sunday of the month (nth<0: last)
			d := time.Date(y, m, 1, 0, 0, 0, 0, time.UTC)
			for d.Weekday() != time.Sunday {
				d = d.AddDate(0, 0, 1)
			}
			if nth < 0 {
				for d.AddDate(0, 0, 7).Month() == m {
					d = d.AddDate(0, 0, 7)
				}
				return d
			}
			return d.AddDate(0, 0, 7*(nth-1))
		}
		days = append(days, sunday(time.March, -1), sunday(time.October, -1), sunday(time.March, 2), sunday(time.November, 1), sunday(time.April, 1), sunday(time.October, 1))
		d := pick(g, days)
		return d.AddDate(0, 0, -g.Intn(11)).Add(time.Duration(g.Intn(24*3600)) * time.Second)
	}
	return t
}

// synthCert draws one synthetic certificate; nil if the real parser rejects every attempt.
func synthCert(g *RNG, idx []string) *ObjSpec {
	d := donor(g, idx)
	if d == nil {
		return nil
	}
	for tries := 0; tries < 8; tries++ {
		// ---- archetype: independent random features rarely add up to a coherent certificate of some type
		arch := pick(g, []string{"random", "random", "random", "random", "tls", "tls", "ev-onion", "smime", "codesigning", "ca", "tls-removed-tld", "many-names", "idn"})
		if synthForceManyNames > 0 {
			arch = "many-names"
		}
		var forcedEKU, forcedPol []string
		// ---- names
		nh := g.weighted([]int{1, 4, 3, 3, 2, 2, 1, 1, 1, 1})
		var hosts []string
		for i := 0; i < nh; i++ {
			hosts = append(hosts, pick(g, synthHosts))
		}
		var uriHosts []string
		switch arch {
		case "many-names":
			// scale: hundreds to thousands of distinct names (dNSName and URI entries), as multi-tenant
			// front-end certificates have - whatever helpers keep per name is exercised at volume
			forcedEKU = []string{"1.3.6.1.5.5.7.3.1"}
			nn := pick(g, []int{300, 300, 300, 1500, 1500, 5000})
			if synthForceManyNames > 0 {
				nn = synthForceManyNames
			}
			tag := fmt.Sprintf("%x", g.U64()&0xffffff)
			hosts = hosts[:0]
			for i := 0; i < nn; i++ {
				hosts = append(hosts, fmt.Sprintf("h%d-%s.example.com", i, tag))
				uriHosts = append(uriHosts, fmt.Sprintf("u%d-%s.example.org", i, tag))
			}
		case "tls-removed-tld":
			// a server certificate issued while its top-level domain was delegated; the domain has been removed
			// since. Names and access locations share the domain (rules asking at notBefore and rules asking
			// "today" then consult the same helper about the same label, one after the other).
			forcedEKU = []string{"1.3.6.1.5.5.7.3.1"}
			forcedPol = []string{"2.23.140.1.2.1"}
			tld := pick(g, []string{"abarth", "doosan", "iinet", "htc", "active"})
			hosts = hosts[:0]
			for i := g.Range(1, 3); i > 0; i-- {
				hosts = append(hosts, pick(g, []string{"www", "shop", "a", "mail"})+".example."+tld)
			}
		case "tls":
			forcedEKU = []string{"1.3.6.1.5.5.7.3.1"}
			forcedPol = []string{pick(g, []string{"2.23.140.1.2.1", "2.23.140.1.2.2", "2.23.140.1.1"})}
		case "idn":
			// a server certificate whose names carry A-labels of every sort, in a seeded order
			forcedEKU = []string{"1.3.6.1.5.5.7.3.1"}
			forcedPol = []string{pick(g, []string{"2.23.140.1.2.1", "2.23.140.1.2.2"})}
			hosts = hosts[:0]
			for i := g.Range(2, 6); i > 0; i-- {
				hosts = append(hosts, pick(g, synthIDNHosts))
			}
		case "ev-onion":
			forcedEKU = []string{"1.3.6.1.5.5.7.3.1"}
			forcedPol = []string{"2.23.140.1.1"}
			hosts = hosts[:0]
			for _, j := range g.subset(6, g.Range(1, 4)) {
				hosts = append(hosts, []string{"zqktlwi4fecvo6ri.onion", "pg6mmjiyjmcrsslvykfwnntlaru7p5svn6y2ymmju6nubxndf4pscryd.onion", "expyuzz4wqqyqhjn.onion", "www.facebookcorewwwi.onion", "3g2upl4pq6kufc4m.onion", "a.duckduckgogg42xjoc72x3sjasowoarfbgcmvfimaftt6twagswzczad.onion"}[j])
			}
		case "smime":
			forcedEKU = []string{"1.3.6.1.5.5.7.3.4"}
			if g.Chance(0.3) {
				// in scope through its policy identifier and mailbox name only: the purposes listed are others
				forcedEKU = []string{pick(g, []string{"1.3.6.1.5.5.7.3.2", "1.3.6.1.4.1.311.10.3.12", "1.2.3.4.5.6"})}
			}
			forcedPol = []string{pick(g, []string{"2.23.140.1.5.1.1", "2.23.140.1.5.2.2", "2.23.140.1.5.3.1", "2.23.140.1.5.4.3"})}
		case "codesigning":
			forcedEKU = []string{"1.3.6.1.5.5.7.3.3"}
			forcedPol = []string{pick(g, []string{"2.23.140.1.4.1", "2.23.140.1.3"})}
		}
		if g.Chance(0.2) && len(hosts) > 0 {
			hosts = append(hosts, hosts[0])
		}
		if g.Chance(0.03) {
			// a name of several thousand bytes (whatever quotes it in its findings says a lot)
			giant := strings.TrimSuffix(strings.Repeat(strings.Repeat(pick(g, []string{"a", "x", "0"}), 61)+".", g.Range(90, 240)), ".") + pick(g, []string{".onion", ".onion", ".example.com", ".invalidtld"})
			hosts = []string{giant} // the subject's common name, if it has one, is such a name too
			if g.Chance(0.5) {
				// a second one (what two findings say together is more than either says alone)
				hosts = append(hosts, strings.Replace(giant, giant[:61], strings.Repeat("b", 61), -1))
			}
		}
		if g.Chance(0.12) {
			// an onion-service certificate with several services
			for _, j := range g.subset(6, g.Range(2, 4)) {
				hosts = append(hosts, []string{"zqktlwi4fecvo6ri.onion", "pg6mmjiyjmcrsslvykfwnntlaru7p5svn6y2ymmju6nubxndf4pscryd.onion", "expyuzz4wqqyqhjn.onion", "www.facebookcorewwwi.onion", "3g2upl4pq6kufc4m.onion", "a.duckduckgogg42xjoc72x3sjasowoarfbgcmvfimaftt6twagswzczad.onion"}[j])
			}
		}
		isCA := g.Chance(0.2)
		if arch == "ca" {
			isCA = true
		} else if arch != "random" {
			isCA = false
		}
		subject := synthName(g, hosts, g.Chance(0.4))
		issuer := d.issuer
		if g.Chance(0.4) {
			issuer = synthName(g, nil, false)
		}
		if g.Chance(0.1) {
			issuer = subject
		}
		// ---- validity
		nb := synthBase.Add(time.Duration(g.Intn(17*365*24)) * time.Hour)
		if arch == "tls-removed-tld" {
			nb = time.Date(2017, 1, 1, 0, 0, 0, 0, time.UTC).Add(time.Duration(g.Intn(5*365*24)) * time.Hour)
		}
		if arch != "tls-removed-tld" {
			nb = synthOddInstant(g, nb)
		}
		if arch == "idn" && g.Chance(0.8) {
			nb = time.Date(2018, 6, 1, 0, 0, 0, 0, time.UTC).Add(time.Duration(g.Intn(6*365*24)) * time.Hour)
		}
		na := nb.Add(time.Duration(pick(g, []int{1, 30, 90, 200, 397, 398, 825, 1200, 3650, 9000})) * 24 * time.Hour)
		if g.Chance(0.05) {
			na = nb.Add(-time.Hour)
		}
		serial := new(big.Int).SetUint64(g.U64())
		switch g.Intn(12) {
		case 0:
			serial = big.NewInt(0)
		case 1:
			serial.Neg(serial)
		case 2:
			serial.Lsh(serial, 100)
		case 3:
			serial = big.NewInt(int64(g.Intn(100)))
		}
		// ---- extensions
		var exts [][]byte
		add := func(e []byte) {
			exts = append(exts, e)
			if g.Chance(0.04) {
				exts = append(exts, e) // duplicated extension
			}
		}
		if arch == "smime" {
			gn := synthGeneralNames(g, nil)
			inner := gn[len(gn)-len(stripTL(gn)):]
			mailbox := ctxPrim(1, []byte(pick(g, []string{"a@example.com", "B.C@example.org"})))
			if g.Chance(0.3) {
				// the mailbox is named by an internationalised otherName only
				mailbox = synthSmtpUTF8Mailbox(g)
				if g.Chance(0.5) {
					inner = nil
					forcedPol = nil
				}
			}
			if g.Chance(0.25) {
				// several mailbox entries, an empty one among them (first, in the middle or last)
				extra := [][]byte{ctxPrim(1, nil), ctxPrim(1, []byte(pick(g, []string{"c@example.net", "a@example.com"})))}
				if g.Chance(0.5) {
					extra[0], extra[1] = extra[1], extra[0]
				}
				if g.Chance(0.6) {
					mailbox = append(append(extra[0], mailbox...), extra[1]...)
				} else {
					mailbox = append(mailbox, append(extra[0], extra[1]...)...)
				}
			}
			add(dext("2.5.29.17", g.Chance(0.1), dseq(mailbox, inner)))
		} else if len(hosts) > 0 || g.Chance(0.3) {
			gn := synthGeneralNames(g, hosts)
			if len(uriHosts) > 0 {
				inner := [][]byte{stripTL(gn)}
				for _, u := range uriHosts {
					inner = append(inner, ctxPrim(6, []byte("https://"+u+"/")))
				}
				gn = dseq(inner...)
			}
			add(dext("2.5.29.17", g.Chance(0.1), gn))
		}
		if g.Chance(0.12) {
			// issuer alternative names
			var ih []string
			if g.Chance(0.5) {
				ih = []string{pick(g, synthHosts)}
			}
			add(dext("2.5.29.18", false, synthGeneralNames(g, ih)))
		}
		if len(forcedEKU) > 0 {
			ekus := [][]byte{doid(forcedEKU[0])}
			if g.Chance(0.3) {
				ekus = append(ekus, doid(pick(g, synthEKUs)))
			}
			add(dext("2.5.29.37", false, dseq(ekus...)))
		} else if g.Chance(0.03) {
			// the extension is there and lists nothing
			add(dext("2.5.29.37", g.Chance(0.1), dseq()))
		} else if g.Chance(0.85) {
			var ekus [][]byte
			k := g.Range(1, 3)
			if g.Chance(0.25) {
				// purposes outside the common set only
				for i := 0; i < k; i++ {
					ekus = append(ekus, doid(synthEKUs[7+g.Intn(len(synthEKUs)-7)]))
				}
			} else {
				for _, j := range g.subset(len(synthEKUs), k) {
					ekus = append(ekus, doid(synthEKUs[j]))
				}
			}
			add(dext("2.5.29.37", g.Chance(0.1), dseq(ekus...)))
		}
		if g.Chance(0.8) {
			ku := byte(g.Intn(256))
			if isCA {
				ku |= 0x04 | 0x02
			}
			add(dext("2.5.29.15", g.Chance(0.8), dbits([]byte{ku}, byte(g.Intn(2)))))
		}
		if isCA || g.Chance(0.4) {
			var parts [][]byte
			if isCA {
				parts = append(parts, dbool(true))
				if g.Chance(0.4) {
					parts = append(parts, dint(big.NewInt(int64(g.Intn(4)))))
				}
			}
			add(dext("2.5.29.19", g.Chance(0.7), dseq(parts...)))
		}
		if isCA && g.Chance(0.35) {
			// name constraints: permitted / excluded subtrees of names and of address blocks, written canonically
			// or with host bits set, reserved or public
			subtree := func() []byte {
				switch g.Intn(4) {
				case 0:
					return dseq(ctxPrim(2, []byte(pick(g, []string{"example.com", ".example.com", "", "xn--9ca.example", "EXAMPLE.org"}))))
				case 1:
					return dseq(ctxPrim(1, []byte(pick(g, []string{"example.com", "a@example.com", ".example.org"}))))
				case 2:
					return dseq(ctxPrim(6, []byte(pick(g, []string{".example.com", "example.com", "?example.com", "?", "?.*.example.com", "*.example.com", "??.example.com", "", "."}))))
				}
				ipm := pick(g, [][]byte{{10, 0, 0, 0, 255, 0, 0, 0}, {11, 22, 33, 44, 255, 255, 0, 0}, {192, 168, 1, 77, 255, 255, 255, 0}, {8, 8, 8, 8, 255, 255, 255, 255},
					{100, 64, 3, 1, 255, 192, 0, 0}, {0, 0, 0, 0, 0, 0, 0, 0}, {203, 0, 113, 9, 255, 255, 255, 128},
					{0x20, 0x01, 0x0d, 0xb8, 0, 0, 0, 1, 0, 0, 0, 0, 0, 0, 0, 9, 255, 255, 255, 255, 0, 0, 0, 0, 0, 0, 0, 0, 0, 0, 0, 0}})
				return dseq(ctxPrim(7, ipm))
			}
			var nc [][]byte
			if g.Chance(0.8) {
				var st [][]byte
				for k := g.Range(1, 3); k > 0; k-- {
					st = append(st, subtree())
				}
				nc = append(nc, ctxCons(0, st...))
			}
			if g.Chance(0.4) || len(nc) == 0 {
				var st [][]byte
				for k := g.Range(1, 2); k > 0; k-- {
					st = append(st, subtree())
				}
				nc = append(nc, ctxCons(1, st...))
			}
			add(dext("2.5.29.30", g.Chance(0.8), dseq(nc...)))
		}
		if len(forcedPol) > 0 || g.Chance(0.75) {
			var pols [][]byte
			polIdx := g.subset(len(synthPolicies), g.Range(1, 3))
			if len(forcedPol) > 0 {
				polIdx = polIdx[:g.Intn(2)]
				for j, sp := range synthPolicies {
					if sp == forcedPol[0] {
						polIdx = append([]int{j}, polIdx...)
					}
				}
			}
			for _, j := range polIdx {
				var quals [][]byte
				if g.Chance(0.4) {
					quals = append(quals, dseq(doid("1.3.6.1.5.5.7.2.1"), dstr("ia5", pick(g, []string{"https://example.com/cps", "http://cps.example.org", "not a uri"}))))
				}
				if g.Chance(0.35) {
					txt := pick(g, []string{"short notice", strings.Repeat("n", 150), strings.Repeat("notice ", 40), "Ünïcödé notice", ""})
					quals = append(quals, dseq(doid("1.3.6.1.5.5.7.2.2"), dseq(dstr(pick(g, []string{"utf8", "bmp", "bmp", "ia5", "visible"}), txt))))
				}
				if len(quals) > 0 {
					pols = append(pols, dseq(doid(synthPolicies[j]), dseq(quals...)))
				} else {
					pols = append(pols, dseq(doid(synthPolicies[j])))
				}
			}
			add(dext("2.5.29.32", g.Chance(0.05), dseq(pols...)))
		}
		if g.Chance(0.7) {
			ski := make([]byte, pick(g, []int{20, 20, 20, 4, 32}))
			for i := range ski {
				ski[i] = byte(g.Intn(256))
			}
			add(dext("2.5.29.14", false, doctet(ski)))
		}
		if g.Chance(0.7) {
			kid := make([]byte, 20)
			for i := range kid {
				kid[i] = byte(g.Intn(256))
			}
			parts := [][]byte{ctxPrim(0, kid)}
			if g.Chance(0.1) {
				parts = nil
			}
			add(dext("2.5.29.35", g.Chance(0.05), dseq(parts...)))
		}
		if g.Chance(0.5) {
			uri := pick(g, []string{"http://crl.example.com/a.crl", "ldap://crl.example.com/a", "https://crl.example.com/a.crl"})
			add(dext("2.5.29.31", g.Chance(0.05), dseq(dseq(ctxCons(0, ctxCons(0, ctxPrim(6, []byte(uri))))))))
		}
		if g.Chance(0.6) {
			var ads [][]byte
			// access locations: fixed ones, hosts under top-level domains that were removed or delegated late, or
			// one of the certificate's own names (two rules then ask the same helper about the same host)
			aiaHost := func(def []string) string {
				switch k := g.Intn(10); {
				case (k < 3 || arch == "tls-removed-tld" && k < 8) && len(hosts) > 0:
					return "http://" + strings.TrimPrefix(pick(g, hosts), "*.")
				case k < 5:
					return "http://" + pick(g, []string{"ocsp.example.abarth", "ca.example.doosan", "pki.example.iinet", "ocsp.example.app", "ocsp.example.htc"})
				}
				return pick(g, def)
			}
			if g.Chance(0.8) {
				ads = append(ads, dseq(doid("1.3.6.1.5.5.7.48.1"), ctxPrim(6, []byte(aiaHost([]string{"http://ocsp.example.com", "https://ocsp.example.com", "ldap://ocsp.example.com", "http://ocsp.internal"})))))
			}
			if g.Chance(0.7) {
				ads = append(ads, dseq(doid("1.3.6.1.5.5.7.48.2"), ctxPrim(6, []byte(aiaHost([]string{"http://ca.example.com/ca.crt", "http://ca.corp/ca.crt", "ftp://ca.example.com/ca.crt"})+"/ca.crt"))))
			}
			if len(ads) > 0 {
				add(dext("1.3.6.1.5.5.7.1.1", g.Chance(0.05), dseq(ads...)))
			}
		}
		if g.Chance(0.08) {
			add(dext("1.3.6.1.4.1.99999.7.7", g.Chance(0.5), dstr("utf8", "private extension")))
		}
		// CA/B Tor service descriptors for some of the onion names (hash over the onion service's key)
		var onions []string
		for _, h := range hosts {
			if strings.HasSuffix(h, ".onion") {
				l := strings.Split(h, ".")
				onions = append(onions, strings.Join(l[len(l)-2:], "."))
			}
		}
		if len(onions) > 0 && g.Chance(0.6) {
			var ds [][]byte
			for i, o := range onions {
				if i > 0 && g.Chance(0.5) {
					continue
				}
				alg := pick(g, []string{"2.16.840.1.101.3.4.2.1", "2.16.840.1.101.3.4.2.1", "2.16.840.1.101.3.4.2.2", "2.16.840.1.101.3.4.2.3", "1.3.14.3.2.26"})
				bits := map[string]int{"2.16.840.1.101.3.4.2.1": 32, "2.16.840.1.101.3.4.2.2": 48, "2.16.840.1.101.3.4.2.3": 64, "1.3.14.3.2.26": 20}[alg]
				if g.Chance(0.1) {
					bits = 16
				}
				hsh := make([]byte, bits)
				for j := range hsh {
					hsh[j] = byte(g.Intn(256))
				}
				uri := pick(g, []string{"https://", "https://", "http://", ""}) + o
				if g.Chance(0.2) {
					// an authority with a port, with user information, without a host; a path only
					uri = pick(g, []string{"https://" + o + ":443", "https://" + o + ":443/x", "https://:443/aaaaa", "https://user@" + o, "https://:/", "https:///" + o, "//" + o, "https://" + o + "/?q=1#f", "https://[::1]:443/"})
				}
				ds = append(ds, dseq(dstr("utf8", uri), dseq(doid(alg)), dbits(hsh, 0)))
			}
			if len(ds) > 0 {
				add(dext("2.23.140.1.31", false, dseq(ds...)))
			}
		}
		if g.Chance(0.3) && len(exts) > 1 {
			p := g.Perm(len(exts))
			out := make([][]byte, len(exts))
			for i, j := range p {
				out[i] = exts[j]
			}
			exts = out
		}
		spki := d.spki
		if weak := g.Chance(0.1); weak || synthForceWeakKey {
			spki = weakSPKI(g)
		}
		parts := [][]byte{ctxCons(0, dint(big.NewInt(2))), dint(serial), d.sigAlg, issuer,
			dseq(dtime(nb, g.Chance(0.05) || synthForceGenTime), dtime(na, g.Chance(0.05) || synthForceGenTime)), subject, spki}
		if len(exts) > 0 {
			parts = append(parts, ctxCons(3, dseq(exts...)))
		}
		der := dseq(dseq(parts...), d.sigAlg, d.sig)
		if _, err := parseObj(KCert, der); err == nil {
			return &ObjSpec{ID: "synth-cert:" + sha(der)[:12], Kind: KCert, DER: der}
		}
	}
	return nil
}

// synthCRL draws one synthetic CRL.
func synthCRL(g *RNG, idx []string) *ObjSpec {
	d := donor(g, idx)
	if d == nil {
		return nil
	}
	for tries := 0; tries < 8; tries++ {
		this := synthOddInstant(g, synthBase.Add(time.Duration(g.Intn(17*365*24))*time.Hour))
		parts := [][]byte{dint(big.NewInt(1)), d.sigAlg, d.issuer, dtime(this, g.Chance(0.05) || synthForceGenTime)}
		if g.Chance(0.85) {
			parts = append(parts, dtime(this.Add(time.Duration(pick(g, []int{1, 7, 10, 30, 200, 366, 400}))*24*time.Hour), g.Chance(0.05)))
		}
		nRev := g.weighted([]int{2, 3, 3, 2, 1})
		// now and then a large list: thousands of entries with serial numbers 1..n (two such lists share
		// most of their serials, as successive CRLs of one issuer do), with or without a repeated serial
		bigList := g.Chance(0.05) || synthForceBigCRL
		dups := map[int]int{} // position -> serial repeated there (one or several repeated serials, near and far apart)
		if bigList {
			nRev = pick(g, []int{1200, 4500, 4500, 9000, 40000})
			if synthForceCRLEntries > 0 {
				nRev = synthForceCRLEntries
			}
			if g.Chance(0.5) {
				for k := pick(g, []int{1, 1, 2, 3, 6}); k > 0; k-- {
					at := g.Range(nRev/2, nRev-1)
					dups[at] = 1 + g.Intn(at)
				}
			}
		}
		// in a large list a few entries far apart carry reason codes and other entry extensions (what the first
		// part of the list holds and what a later part holds differ)
		coded := map[int]bool{}
		if bigList && g.Chance(0.6) {
			for k := g.Range(1, 6); k > 0; k-- {
				coded[g.Intn(nRev)] = true
			}
		}
		var revs [][]byte
		for i := 0; i < nRev; i++ {
			serial := big.NewInt(int64(1 + g.Intn(1000)))
			if g.Chance(0.2) && i > 0 {
				serial = big.NewInt(1)
			}
			if bigList {
				serial = big.NewInt(int64(i + 1))
				if of, ok := dups[i]; ok {
					serial = big.NewInt(int64(of))
				}
				if i >= 8 && !coded[i] {
					// plain entries after the first few: serial and date only
					revs = append(revs, dseq(dint(serial), dtime(this.Add(-time.Duration(i%1000)*time.Hour), false)))
					continue
				}
			}
			ent := [][]byte{dint(serial), dtime(this.Add(-time.Duration(g.Intn(1000))*time.Hour), false)}
			var eexts [][]byte
			if g.Chance(0.7) {
				code := pick(g, []int{0, 1, 2, 3, 4, 5, 6, 7, 8, 9, 10, 11, 12, 200, -1})
				eexts = append(eexts, dext("2.5.29.21", g.Chance(0.1), tlv(0x0a, dint(big.NewInt(int64(code)))[2:])))
			}
			if g.Chance(0.2) {
				eexts = append(eexts, dext("2.5.29.24", false, dtime(this.Add(-48*time.Hour), true)))
			}
			if len(eexts) > 0 {
				ent = append(ent, dseq(eexts...))
			}
			revs = append(revs, dseq(ent...))
		}
		if nRev > 0 || g.Chance(0.2) {
			parts = append(parts, dseq(revs...))
		}
		var exts [][]byte
		if g.Chance(0.8) {
			kid := make([]byte, 20)
			for i := range kid {
				kid[i] = byte(g.Intn(256))
			}
			exts = append(exts, dext("2.5.29.35", false, dseq(ctxPrim(0, kid))))
		}
		if g.Chance(0.8) {
			exts = append(exts, dext("2.5.29.20", g.Chance(0.1), dint(big.NewInt(int64(g.Intn(100000))))))
		}
		if g.Chance(0.2) {
			exts = append(exts, dext("2.5.29.28", true, dseq(ctxCons(0, ctxCons(0, ctxPrim(6, []byte("http://crl.example.com/x.crl")))))))
		}
		if len(exts) > 0 {
			parts = append(parts, ctxCons(0, dseq(exts...)))
		}
		der := dseq(dseq(parts...), d.sigAlg, d.sig)
		if _, err := parseObj(KCRL, der); err == nil {
			if bigList {
				return &ObjSpec{ID: "synth-crlbig:" + sha(der)[:12], Kind: KCRL, DER: der}
			}
			return &ObjSpec{ID: "synth-crl:" + sha(der)[:12], Kind: KCRL, DER: der}
		}
	}
	return nil
}

// synthOCSP draws one synthetic OCSP response (BasicOCSPResponse with one
// SingleResponse; no embedded certificate, so the parser checks no signature).
func synthOCSP(g *RNG, idx []string) *ObjSpec {
	d := donor(g, idx)
	if d == nil {
		return nil
	}
	for tries := 0; tries < 8; tries++ {
		produced := synthBase.Add(time.Duration(g.Intn(17*365*24)) * time.Hour).Add(time.Duration(g.Intn(3600)) * time.Second)
		this := produced.Add(time.Duration(pick(g, []int{0, -1, 1, -60, 60, -3600, 3600, -86400, 86400})) * time.Second)
		hash := func(n int) []byte {
			b := make([]byte, n)
			for i := range b {
				b[i] = byte(g.Intn(256))
			}
			return b
		}
		certID := dseq(dseq(doid("1.3.14.3.2.26"), []byte{0x05, 0x00}), doctet(hash(20)), doctet(hash(20)), dint(new(big.Int).SetUint64(g.U64()>>1)))
		var status []byte
		switch g.Intn(3) {
		case 0:
			status = []byte{0x80, 0x00}
		case 1:
			rev := [][]byte{tlv(0x18, []byte(this.Add(-time.Hour).UTC().Format("20060102150405Z")))}
			if g.Chance(0.6) {
				rev = append(rev, ctxCons(0, tlv(0x0a, []byte{byte(pick(g, []int{0, 1, 4, 5, 6, 8, 9, 10}))})))
			}
			status = tlv(0xa1, rev...)
		case 2:
			status = []byte{0x82, 0x00}
		}
		single := [][]byte{certID, status, dtime(this, true)}
		if g.Chance(0.85) {
			single = append(single, ctxCons(0, dtime(this.Add(time.Duration(pick(g, []int{1, 24, 96, 240}))*time.Hour), true)))
		}
		var rid []byte
		if g.Chance(0.5) {
			rid = ctxCons(1, d.issuer)
		} else {
			rid = ctxCons(2, doctet(hash(20)))
		}
		rdParts := [][]byte{rid, dtime(produced, true), dseq(dseq(single...))}
		if g.Chance(0.3) {
			rdParts = append(rdParts, ctxCons(1, dseq(dext("1.3.6.1.5.5.7.48.1.2", false, doctet(hash(16))))))
		}
		basic := dseq(dseq(rdParts...), d.sigAlg, d.sig)
		der := dseq(tlv(0x0a, []byte{0}), ctxCons(0, dseq(doid("1.3.6.1.5.5.7.48.1.1"), doctet(basic))))
		if _, err := parseObj(KOCSP, der); err == nil {
			return &ObjSpec{ID: "synth-ocsp:" + sha(der)[:12], Kind: KOCSP, DER: der}
		}
	}
	return nil
}

// maybeSynth replaces o by a synthetic object of the same kind with probability p.
func maybeSynth(g *RNG, idx []string, o *ObjSpec, p float64) *ObjSpec {
	if o == nil || !g.Chance(p) {
		return o
	}
	var s *ObjSpec
	switch o.Kind {
	case KCert:
		s = synthCert(g, idx)
	case KCRL:
		s = synthCRL(g, idx)
	case KOCSP:
		s = synthOCSP(g, idx)
	}
	if s != nil {
		return s
	}
	return o
}
