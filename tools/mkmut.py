#!/usr/bin/env python3
# tools/mkmut.py : builds /verif/mutants/<name>.diff files from (file, old, new) replacement specs,
# using a scratch worktree of /repo (removed afterwards). Each mutant must apply to the current HEAD.
import subprocess, sys, os, json, shutil
WT='/tmp/zm-mk'
def sh(*a, **k): return subprocess.run(a, check=True, capture_output=True, text=True, **k).stdout
def make(name, edits, meta):
    sh('git','-C',WT,'checkout','--','.')
    for (f, old, new) in edits:
        p=os.path.join(WT,f); s=open(p).read()
        if old not in s: print('MISSING in',f,':',old[:60]); return False
        s=s.replace(old,new,1); open(p,'w').write(s)
    d=sh('git','-C',WT,'diff')
    open(f'/verif/mutants/{name}.diff','w').write(d)
    json.dump(meta, open(f'/verif/mutants/{name}.json','w'), indent=1)
    r=subprocess.run(['go','build','./...'],cwd=WT+'/v3',capture_output=True,text=True,env=dict(os.environ,GOFLAGS='-mod=mod',GOPROXY='off',GOSUMDB='off',GOTOOLCHAIN='local'))
    print(name, 'build', 'ok' if r.returncode==0 else 'FAILED '+r.stderr[:300])
    return r.returncode==0
if __name__=='__main__':
    spec=json.loads(open(sys.argv[1]).read(), strict=False)
    subprocess.run(['git','-C','/repo','worktree','remove','--force',WT],capture_output=True)
    sh('git','-C','/repo','worktree','add','-q','--detach',WT,'HEAD')
    try:
        for m in spec:
            if len(sys.argv)>2 and m['name'] not in sys.argv[2:]: continue
            make(m['name'], [tuple(e) for e in m['edits']], {"breaks":m['breaks'],"what":m['what'],"caught_by":m.get('caught_by',m['breaks'])})
    finally:
        subprocess.run(['git','-C','/repo','worktree','remove','--force',WT],capture_output=True)
