#!/bin/bash
# tools/sweepmut.sh [pattern]  : runs every mutant of /verif/mutants (or /verif/seeded/*/patch.diff with SEEDED=1)
# against the checks of the properties it is meant to break; one line per (mutant, check).
cd /verif
pat="${1:-}"
for j in mutants/*${pat}*.json; do
  [ "$(basename $j)" = catalogue.json ] && continue
  d="${j%.json}.diff"
  ids=$(python3 -c "import json;print(' '.join(json.load(open('$j'))['caught_by']))")
  tools/runmut.sh "$d" $ids
done
