#!/bin/bash
# thorough tier of every check, one after the other, on the committed snapshot (cwd = snapshot)
export ZSIM_VERIF="$PWD" ZSIM_WORKERS=10
for p in C10 C05 C01 C11 C07 C08 C04 C15; do
  echo "=== $p thorough $(date +%T)"
  ./check $p thorough 2>&1 | grep -v "^zsim: batch .* violations=0" | tail -25
  echo "=== $p exit=$? $(date +%T)"
done
