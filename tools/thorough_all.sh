#!/bin/bash
# tools/thorough_all.sh <ID>... : thorough tier of the named checks, one after the other (cwd = /verif or a snapshot of it)
export ZSIM_VERIF="$PWD" ZSIM_WORKERS="${ZSIM_WORKERS:-8}"
for p in "$@"; do
  echo "=== $p thorough $(date +%T)"
  ./check $p thorough > "thorough-$p.log" 2>&1
  rc=$?
  grep -v "^zsim: batch .* violations=0" "thorough-$p.log" | tail -25
  echo "=== $p exit=$rc $(date +%T)"
done
