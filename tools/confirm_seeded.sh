#!/bin/bash
# tools/confirm_seeded.sh <ID> <k> : confirms a sub-agent's change in a scratch worktree
# (demo passes without it, fails with it; existing suite passes with it) and files it under /verif/seeded/<ID>-<k>/.
set -u
export GOFLAGS=-mod=mod GOPROXY=off GOSUMDB=off GOTOOLCHAIN=local
id="$1"; k="$2"; src="/tmp/mut/$id-out/$k"
[ -f "$src/patch.diff" ] || { echo "confirm: no patch in $src"; exit 2; }
wt="/tmp/zc/$id-$k"; rm -rf "$wt"; mkdir -p /tmp/zc
git -C /repo worktree add -q --detach "$wt" HEAD || exit 2
trap 'git -C /repo worktree remove --force "$wt" 2>/dev/null; git -C /repo worktree prune' EXIT
demo_dir=$(python3 -c "import json;print(json.load(open('$src/notes.json')).get('demo_dir','.') or '.')")
demo_cmd=$(python3 -c "import json;print(json.load(open('$src/notes.json'))['demo_cmd'])")
mkdir -p "$wt/v3/$demo_dir"
for f in "$src"/*; do case "$(basename $f)" in patch.diff|notes.json) ;; *) cp -r "$f" "$wt/v3/$demo_dir/";; esac; done
cd "$wt/v3"
echo "== demo without the change: $demo_cmd"
( eval "$demo_cmd" ) > /tmp/zc/$id-$k.without.log 2>&1; rc_without=$?
git -C "$wt" apply "$src/patch.diff" || { echo "confirm: patch does not apply"; exit 2; }
go build ./... || { echo "confirm: does not build"; exit 2; }
echo "== demo with the change"
( eval "$demo_cmd" ) > /tmp/zc/$id-$k.with.log 2>&1; rc_with=$?
# existing suite, demo files removed
for f in "$src"/*; do case "$(basename $f)" in patch.diff|notes.json) ;; *) rm -rf "$wt/v3/$demo_dir/$(basename $f)";; esac; done
echo "== existing suite with the change"
go test -vet=off -count=1 ./... > /tmp/zc/$id-$k.suite.log 2>&1; rc_suite=$?
echo "confirm: $id/$k demo_without=$rc_without demo_with=$rc_with suite=$rc_suite"
if [ $rc_without = 0 ] && [ $rc_with != 0 ] && [ $rc_suite = 0 ]; then
  dst="/verif/seeded/$id-$k"; rm -rf "$dst"; mkdir -p "$dst"
  cp "$src/patch.diff" "$dst/patch.diff"
  for f in "$src"/*; do case "$(basename $f)" in patch.diff|notes.json) ;; *) cp -r "$f" "$dst/";; esac; done
  python3 - "$src/notes.json" "$dst/meta.json" "$id" <<'PY'
import json,sys
n=json.load(open(sys.argv[1]))
m={"breaks":sys.argv[3],"summary":n.get("summary"),"needs":n.get("needs"),"demo_dir":n.get("demo_dir"),"demo_cmd":n.get("demo_cmd"),
   "origin":"fresh sub-agent given only the property text and a scratch worktree",
   "confirmed":{"demo_passes_without_change":True,"demo_fails_with_change":True,"existing_suite_passes_with_change":True,
                "how":"tools/confirm_seeded.sh in a scratch worktree of /repo HEAD: demo_cmd before and after git apply, then go test -vet=off -count=1 ./... in v3 with the change and without the demo file"}}
json.dump(m,open(sys.argv[2],'w'),indent=1)
PY
  echo "confirm: kept as $dst"
else
  tail -5 /tmp/zc/$id-$k.without.log /tmp/zc/$id-$k.with.log; grep -v "^ok\|no test files" /tmp/zc/$id-$k.suite.log | tail -10
fi
