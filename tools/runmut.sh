#!/bin/bash
# tools/runmut.sh <patch.diff> <ID> [<ID>...]   (env: TIER=quick|thorough, KEEP=1)
# Applies a property-breaking patch to a scratch worktree of /repo (outside /repo and /verif),
# runs the named checks against it with scratch output directories, prints one line per check,
# and removes the worktree with its build output. Exit 0 iff every named check reported a VIOLATION.
set -u
patch="$(readlink -f "$1")"; shift
name="$(basename "$(dirname "$patch")")-$(basename "$patch" .diff)-$$"
base="/tmp/zm/$name"
rm -rf "$base"; mkdir -p "$base"
git -C /repo worktree add -q --detach "$base/repo" HEAD || exit 2
cleanup() { git -C /repo worktree remove --force "$base/repo" 2>/dev/null; rm -rf "$base"; git -C /repo worktree prune; }
trap cleanup EXIT
if ! git -C "$base/repo" apply "$patch"; then echo "runmut: patch does not apply: $patch"; exit 2; fi
all=0
for id in "$@"; do
  out="$base/out-$id.txt"
  ZSIM_REPO="$base/repo" ZSIM_VERIF="$base/verif" /verif/check "$id" "${TIER:-quick}" ${EXTRA:-} >"$out" 2>&1
  rc=$?
  nv=$(grep -c '^VIOLATION' "$out")
  first=$(grep -m1 '^zsim: violation' "$out" | cut -c1-260)
  echo "runmut: $(basename "$(dirname "$patch")")/$(basename "$patch") check=$id exit=$rc violations=$nv ${first}"
  [ "$rc" = 1 ] && [ "$nv" -gt 0 ] || all=1
  if [ "${KEEP:-}" = 1 ]; then cp "$out" "/tmp/zm/last-$id.txt"; fi
done
exit $all
