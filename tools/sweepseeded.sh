#!/bin/bash
# tools/sweepseeded.sh [pattern] : runs each kept sub-agent change under /verif/seeded against the check of the
# property it was written to break (and, with ALSO="C10 C05", further checks); one line per (change, check).
cd /verif
pat="${1:-}"
for d in seeded/*${pat}*/; do
  d="${d%/}"
  id=$(python3 -c "import json;print(json.load(open('$d/meta.json'))['breaks'])")
  tools/runmut.sh "$d/patch.diff" $id ${ALSO:-}
done
