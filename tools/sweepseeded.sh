#!/bin/bash
# tools/sweepseeded.sh [pattern] : runs each kept sub-agent change under /verif/seeded against the check of the
# property it was written to break and the further checks named in its meta.json; one line per (change, check).
cd /verif
pat="${1:-}"
for d in seeded/*${pat}*/; do
  d="${d%/}"
  [ -f "$d/meta.json" ] || continue
  ids=$(python3 -c "import json;m=json.load(open('$d/meta.json'));print(' '.join([m['breaks']]+m.get('also_run_against',[])))")
  tools/runmut.sh "$d/patch.diff" $ids
done
