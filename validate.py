#!/usr/bin/env python3
# validates MANIFEST.json and every evidence file against the given schemas (tooling venv: python3-vt)
import json, sys, glob, jsonschema
ok = True
def v(path, schema):
    global ok
    try:
        jsonschema.validate(json.load(open(path)), json.load(open(schema)))
        print("ok  ", path)
    except Exception as e:
        ok = False
        print("FAIL", path, str(e)[:400])
v('/verif/MANIFEST.json', '/root/.vp/MANIFEST.schema.json')
for f in sorted(glob.glob('/verif/evidence/*.json')):
    v(f, '/root/.vp/EVIDENCE.schema.json')
sys.exit(0 if ok else 1)
